(* State.v — the heap of edgegraph objects as a struct of arrays indexed by object id
   (id = allocation order; objects are never freed).  Model-side file: definitions only. *)
From EG Require Import Base.

Inductive cls :=
  | KVertex | KVertexSub | KUniverse                 (* vertex-like: have links / universes    *)
  | KDir | KDirSub | KUnd | KUndSub | KOther         (* two-ended links; KOther = neither edge class *)
  | KLaws.                                           (* UniverseLaws                           *)
Definition cls_eqb (a b : cls) : bool :=
  match a, b with
  | KVertex, KVertex | KVertexSub, KVertexSub | KUniverse, KUniverse | KDir, KDir | KDirSub, KDirSub
  | KUnd, KUnd | KUndSub, KUndSub | KOther, KOther | KLaws, KLaws => true
  | _, _ => false
  end.
Definition is_vertex (k : cls) : bool := match k with KVertex | KVertexSub | KUniverse => true | _ => false end.
Definition is_link (k : cls) : bool := match k with KDir | KDirSub | KUnd | KUndSub | KOther => true | _ => false end.
Definition is_directed (k : cls) : bool := match k with KDir | KDirSub => true | _ => false end.   (* issubclass(type(l), DirectedEdge)   *)
Definition is_undirected (k : cls) : bool := match k with KUnd | KUndSub => true | _ => false end. (* issubclass(type(l), UnDirectedEdge) *)

Inductive dirn := Fwd | Bwd | AnyDir.            (* DIR_SENS_FORWARD / BACKWARD / ANY *)
Inductive unk := UErr | UNon | UNb.              (* LNK_UNKNOWN_ERROR / NONNEIGHBOR / NEIGHBOR *)
Definition dirn_eqb a b := match a, b with Fwd, Fwd | Bwd, Bwd | AnyDir, AnyDir => true | _, _ => false end.
Definition unk_eqb a b := match a, b with UErr, UErr | UNon, UNon | UNb, UNb => true | _, _ => false end.
(* memo key of Vertex.__qa_nb_cache: the argument tuple (direction, unknown_handling, filterfunc);
   a filter function is an id (functions compare by identity), None = no filter *)
Definition ckey : Type := dirn * unk * option nat.
Definition ckey_eqb (a b : ckey) : bool :=
  let '(d1, u1, f1) := a in let '(d2, u2, f2) := b in dirn_eqb d1 d2 && unk_eqb u1 u2 && oeqb f1 f2.

Record state := {
  kind    : list cls;
  vlinks  : list (list nat);                       (* Vertex._links                          *)
  lverts  : list (list (option nat));              (* Link._vertices (None = Python None)    *)
  vunis   : list (list nat);                       (* BaseObject._universes                  *)
  uverts  : list (list nat);                       (* Universe._vertices                     *)
  ulaws   : list (option nat);                     (* Universe._laws                         *)
  lapp    : list (option nat);                     (* UniverseLaws._applies_to               *)
  cache   : list (list (ckey * list (option nat)));(* Vertex.__qa_nb_cache                   *)
  caching : bool                                   (* Vertex.NEIGHBOR_CACHING (class flag)   *)
}.
Definition empty : state :=
  {| kind := []; vlinks := []; lverts := []; vunis := []; uverts := []; ulaws := []; lapp := [];
     cache := []; caching := false |}.
Definition next (s : state) : nat := length (kind s).
Definition valid (s : state) (i : nat) : bool := Nat.ltb i (next s).

(* getters *)
Definition kd s i := get KLaws i (kind s).
Definition vl s v := get [] v (vlinks s).
Definition lv s l := get [] l (lverts s).
Definition vu s v := get [] v (vunis s).
Definition uv s u := get [] u (uverts s).
Definition ul s u := get None u (ulaws s).
Definition la s L := get None L (lapp s).
Definition ca s v := get [] v (cache s).

(* setters *)
Definition set_vl s v x := {| kind := kind s; vlinks := set v x (vlinks s); lverts := lverts s; vunis := vunis s;
  uverts := uverts s; ulaws := ulaws s; lapp := lapp s; cache := cache s; caching := caching s |}.
Definition set_lv s l x := {| kind := kind s; vlinks := vlinks s; lverts := set l x (lverts s); vunis := vunis s;
  uverts := uverts s; ulaws := ulaws s; lapp := lapp s; cache := cache s; caching := caching s |}.
Definition set_vu s v x := {| kind := kind s; vlinks := vlinks s; lverts := lverts s; vunis := set v x (vunis s);
  uverts := uverts s; ulaws := ulaws s; lapp := lapp s; cache := cache s; caching := caching s |}.
Definition set_uv s u x := {| kind := kind s; vlinks := vlinks s; lverts := lverts s; vunis := vunis s;
  uverts := set u x (uverts s); ulaws := ulaws s; lapp := lapp s; cache := cache s; caching := caching s |}.
Definition set_ul s u x := {| kind := kind s; vlinks := vlinks s; lverts := lverts s; vunis := vunis s;
  uverts := uverts s; ulaws := set u x (ulaws s); lapp := lapp s; cache := cache s; caching := caching s |}.
Definition set_la s L x := {| kind := kind s; vlinks := vlinks s; lverts := lverts s; vunis := vunis s;
  uverts := uverts s; ulaws := ulaws s; lapp := set L x (lapp s); cache := cache s; caching := caching s |}.
Definition set_ca s v x := {| kind := kind s; vlinks := vlinks s; lverts := lverts s; vunis := vunis s;
  uverts := uverts s; ulaws := ulaws s; lapp := lapp s; cache := set v x (cache s); caching := caching s |}.
Definition set_caching s b := {| kind := kind s; vlinks := vlinks s; lverts := lverts s; vunis := vunis s;
  uverts := uverts s; ulaws := ulaws s; lapp := lapp s; cache := cache s; caching := b |}.

(* allocation: one new object of class k with empty fields; its id is `next s` *)
Definition alloc (k : cls) (s : state) : state :=
  {| kind := kind s ++ [k]; vlinks := vlinks s ++ [[]]; lverts := lverts s ++ [[]]; vunis := vunis s ++ [[]];
     uverts := uverts s ++ [[]]; ulaws := ulaws s ++ [None]; lapp := lapp s ++ [None];
     cache := cache s ++ [[]]; caching := caching s |}.

(* every field list has one entry per object *)
Definition wf (s : state) : Prop :=
  length (vlinks s) = next s /\ length (lverts s) = next s /\ length (vunis s) = next s /\
  length (uverts s) = next s /\ length (ulaws s) = next s /\ length (lapp s) = next s /\
  length (cache s) = next s.

(* exceptions and outcomes *)
Inductive exn := TypeError | ValueError | IndexError | KeyError | AttributeError | NotImplementedError
               | UserError     (* the exception of a user callback that raises (C13): never raised by the library itself *)
               | IllTyped      (* the call is outside the modelled, well-typed API: never generated *)
               | OutOfFuel.    (* fuel exhausted: proved impossible (fuel_enough lemmas)            *)
Definition exn_eqb (a b : exn) : bool :=
  match a, b with
  | TypeError, TypeError | ValueError, ValueError | IndexError, IndexError | KeyError, KeyError
  | AttributeError, AttributeError | NotImplementedError, NotImplementedError | IllTyped, IllTyped
  | OutOfFuel, OutOfFuel | UserError, UserError => true
  | _, _ => false
  end.

(* result of a state-changing method: the state carried by Raise is the state at the time of the raise *)
Inductive res := Ok (s : state) | Raise (e : exn) (s : state).
Definition bind (r : res) (k : state -> res) : res :=
  match r with Ok s => k s | Raise e s => Raise e s end.
Definition res_state (r : res) : state := match r with Ok s => s | Raise _ s => s end.

(* observable part of the heap (everything but the memo): used for the lock-step comparison *)
Definition same_obs (a b : state) : Prop :=
  kind a = kind b /\ vlinks a = vlinks b /\ lverts a = lverts b /\ vunis a = vunis b /\
  uverts a = uverts b /\ ulaws a = ulaws b /\ lapp a = lapp b.
