(* Render.v — output/plaintext.py, output/pyvis.py, output/plantuml.py over a heap state.
   plaintext: the exact text; pyvis: the Network (nodes, edges, directed flag) with add_node /
   add_edge transcribed from pyvis 0.3.2; plantuml: the structured document (declarations in
   member order, one relation per link of the set of member links) — its text formatting
   (str.format, dir(), regex-selected attribute lines) is not modelled.
   Model-side file: definitions only. *)
From Coq Require Import String Ascii.
From EG Require Import Base State Nbrs Trav.
Local Open Scope string_scope.

(* ---------------------------------------------------------------------------------------------- *)
(* plaintext.basic_render                                                                          *)
(* ---------------------------------------------------------------------------------------------- *)
Fixpoint join (sep : string) (l : list string) : string :=
  match l with
  | [] => ""
  | [x] => x
  | x :: t => x ++ sep ++ join sep t
  end.
(* sorted(xs, key=k): stable — elements with equal keys keep their order *)
Fixpoint insert_by {A} (key : A -> nat) (x : A) (l : list A) : list A :=
  match l with
  | [] => [x]
  | y :: t => if Nat.leb (key x) (key y) then x :: l else y :: insert_by key x t
  end.
Definition sort_by {A} (key : A -> nat) (l : list A) : list A := fold_right (insert_by key) [] l.

Inductive pres := POk (o : option string) | PErr (e : exn).

Section Plain.
  Variable filt : nat -> nat -> option nat -> bool.
  Variable r : node -> string.                 (* rfunc, or repr *)
  Variable key : option (node -> nat).         (* sort key, if any *)

  (* one line, as the code builds it: start + " -> " + ", ".join(renderings) *)
  Definition plain_line (v : nat) (nbs : list node) : string :=
    (r (Some v) ++ " -> ") ++ join ", " (map r nbs).
  Definition plain_order (vs : list nat) : list nat :=
    match key with Some k => sort_by (fun v => k (Some v)) vs | None => vs end.
  Definition plain_nbs (nbs : list node) : list node :=
    match key with Some k => sort_by k nbs | None => nbs end.
  Fixpoint plain_lines (s : state) (vs : list nat) : list string + exn :=
    match vs with
    | [] => inl []
    | v :: rest =>
        match neighbors_pure filt s v Fwd UErr None with
        | NErr e => inr e
        | NOk nbs => match plain_lines s rest with
                     | inl ls => inl (plain_line v (plain_nbs nbs) :: ls)
                     | inr e => inr e
                     end
        end
    end.
  Definition basic_render (s : state) (u : nat) : pres :=
    match uv s u with
    | [] => POk None
    | vs => match plain_lines s (plain_order vs) with
            | inl ls => POk (Some (join (String "010"%char "") ls))
            | inr e => PErr e
            end
    end.

  (* the pinned code: every neighbour rendered as "x, " and the last two characters stripped
     unconditionally — kept for the refutation C16_refuted_pinned *)
  Fixpoint drop_last2 (x : string) : string :=
    match x with
    | String a t => match t with String _ (String _ _) => String a (drop_last2 t) | _ => "" end
    | EmptyString => ""
    end.
  Definition plain_line_pinned (v : nat) (nbs : list node) : string :=
    drop_last2 ((r (Some v) ++ " -> ") ++ String.concat "" (map (fun e => r e ++ ", ") nbs)).
End Plain.

(* decimal rendering of small ids, and the rendering function of the generated cases *)
Definition digit (n : nat) : string :=
  match n with 0 => "0" | 1 => "1" | 2 => "2" | 3 => "3" | 4 => "4" | 5 => "5" | 6 => "6" | 7 => "7" | 8 => "8" | _ => "9" end.
Fixpoint dec_aux (fuel n : nat) : string :=
  match fuel with 0 => "" | S f => if Nat.ltb n 10 then digit n else dec_aux f (n / 10) ++ digit (n mod 10) end.
Definition dec (n : nat) : string := dec_aux 6 n.
Definition std_r (v : node) : string := match v with Some x => "v" ++ dec x | None => "None" end.
Definition std_key (v : node) : nat := match v with Some x => (x * 7) mod 5 | None => 9 end.

(* ---------------------------------------------------------------------------------------------- *)
(* pyvis.make_pyvis_net                                                                            *)
(* ---------------------------------------------------------------------------------------------- *)
Record pnet := { pnodes : list (nat * nat);            (* node id, vertex it stands for (label = rvfunc(vertex)) *)
                 pedges : list (nat * nat * bool);      (* from, to, arrowed                                      *)
                 pdirected : bool }.
Definition pnet0 : pnet := {| pnodes := []; pedges := []; pdirected := false |}.
(* Network.add_node: ignored when the id already exists *)
Definition add_node (n : pnet) (i v : nat) : pnet :=
  if memn i (map fst (pnodes n)) then n
  else {| pnodes := pnodes n ++ [(i, v)]; pedges := pedges n; pdirected := pdirected n |}.
(* Network.add_edge: asserts both nodes exist (None = AssertionError); when the network is not
   directed an edge whose unordered pair is already present is skipped *)
Definition add_edge (n : pnet) (i j : nat) : option pnet :=
  if negb (memn i (map fst (pnodes n)) && memn j (map fst (pnodes n))) then None
  else
    let dup := existsb (fun e => let '(f, t, _) := e in (Nat.eqb i t && Nat.eqb j f) || (Nat.eqb i f && Nat.eqb j t)) (pedges n) in
    if negb (pdirected n) && dup then Some n
    else Some {| pnodes := pnodes n; pedges := pedges n ++ [(i, j, pdirected n)]; pdirected := pdirected n |}.
Definition set_directed (n : pnet) (b : bool) : pnet := {| pnodes := pnodes n; pedges := pedges n; pdirected := b |}.

Fixpoint index_of (x : nat) (l : list nat) (i : nat) : option nat :=
  match l with [] => None | y :: t => if Nat.eqb x y then Some i else index_of x t (S i) end.
(* dict built in the first loop: a later duplicate member would overwrite the index; members are
   duplicate-free (C02), so first = last *)
Definition pv_index (verts : list nat) (o : node) : option nat :=
  match o with Some x => index_of x verts 0 | None => None end.

Inductive vres := VOk (n : pnet) | VErr (e : exn).
(* the edge loop for one member vertex *)
Fixpoint pv_edges (s : state) (verts : list nat) (i vert : nat) (ls : list nat) (n : pnet) : vres :=
  match ls with
  | [] => VOk n
  | e :: rest =>
      match lv2 s e, lv1 s e with
      | None, _ | _, None => VErr IndexError                      (* edge.v2 / edge.v1 on a link that lost an end *)
      | Some b, Some a =>
          if oeqb (Some vert) b && negb (oeqb (Some vert) a) then pv_edges s verts i vert rest n   (* only at the *from* end *)
          else
            match other s e (Some vert) with
            | OErr => VErr IndexError
            | OVal o =>
                match pv_index verts o with
                | None => pv_edges s verts i vert rest n              (* other end not a member *)
                | Some j =>
                    let n1 := set_directed n (is_directed (kd s e)) in
                    match add_edge n1 i j with
                    | Some n2 => pv_edges s verts i vert rest n2
                    | None => pv_edges s verts i vert rest n1         (* AssertionError swallowed *)
                    end
                end
            end
      end
  end.
Fixpoint pv_loop (s : state) (verts : list nat) (iv : list (nat * nat)) (n : pnet) : vres :=
  match iv with
  | [] => VOk n
  | (i, vert) :: rest => match pv_edges s verts i vert (vl s vert) n with
                         | VOk n' => pv_loop s verts rest n'
                         | VErr e => VErr e
                         end
  end.
Fixpoint enum_from {A} (i : nat) (l : list A) : list (nat * A) :=
  match l with [] => [] | x :: t => (i, x) :: enum_from (S i) t end.
Definition make_pyvis_net (s : state) (u : nat) : vres :=
  let verts := uv s u in
  let n0 := fold_left (fun n iv => add_node n (fst iv) (snd iv)) (enum_from 0 verts) pnet0 in
  pv_loop s verts (enum_from 0 verts) n0.

(* ---------------------------------------------------------------------------------------------- *)
(* plantuml.render_to_plantuml_src (structure of the document)                                     *)
(* ---------------------------------------------------------------------------------------------- *)
Inductive pcls := PK (k : cls) | PTwoEnded | PLink | PBase | PObject | PNoneType.
Definition pcls_eqb (a b : pcls) : bool :=
  match a, b with
  | PK x, PK y => cls_eqb x y
  | PTwoEnded, PTwoEnded | PLink, PLink | PBase, PBase | PObject, PObject | PNoneType, PNoneType => true
  | _, _ => false
  end.
(* type(x).__mro__ for the classes of the model (harness subclasses included) *)
Definition mro (c : pcls) : list pcls :=
  match c with
  | PK KVertex => [PK KVertex; PBase; PObject]
  | PK KVertexSub => [PK KVertexSub; PK KVertex; PBase; PObject]
  | PK KUniverse => [PK KUniverse; PK KVertex; PBase; PObject]
  | PK KDir => [PK KDir; PTwoEnded; PLink; PBase; PObject]
  | PK KDirSub => [PK KDirSub; PK KDir; PTwoEnded; PLink; PBase; PObject]
  | PK KUnd => [PK KUnd; PTwoEnded; PLink; PBase; PObject]
  | PK KUndSub => [PK KUndSub; PK KUnd; PTwoEnded; PLink; PBase; PObject]
  | PK KOther => [PK KOther; PTwoEnded; PLink; PBase; PObject]
  | PK KLaws => [PK KLaws; PBase; PObject]
  | PTwoEnded => [PTwoEnded; PLink; PBase; PObject]
  | PLink => [PLink; PBase; PObject]
  | PBase => [PBase; PObject]
  | PObject => [PObject]
  | PNoneType => [PNoneType; PObject]
  end.
(* _resolve_options: the first class of the MRO present in the options table (None = ValueError) *)
Definition resolve (conf : pcls -> bool) (c : pcls) : option pcls := find conf (mro c).

Record pdecl := { d_vertex : nat; d_class : pcls }.                    (* configured class decides type / options *)
Record prel := { r_link : nat; r_v1 : nat; r_v2 : nat; r_class : pcls; r_c1 : pcls; r_c2 : pcls }.
Record pdoc := { decls : list pdecl; rels : list prel }.
Inductive ures := UOk (o : option pdoc) | UErr (e : exn).

Definition ocls (s : state) (o : node) : pcls := match o with Some x => PK (kd s x) | None => PNoneType end.
Fixpoint puml_decls (conf : pcls -> bool) (s : state) (vs : list nat) : option (list pdecl) :=
  match vs with
  | [] => Some []
  | v :: r => match resolve conf (PK (kd s v)), puml_decls conf s r with
              | Some c, Some ds => Some ({| d_vertex := v; d_class := c |} :: ds)
              | _, _ => None
              end
  end.
Definition puml_rel (conf : pcls -> bool) (s : state) (l : nat) : prel + exn :=
  match resolve conf (PK (kd s l)) with
  | None => inr ValueError
  | Some c =>
      match lv1 s l, lv2 s l with
      | Some a, Some b =>
          match resolve conf (ocls s a), resolve conf (ocls s b) with
          | Some c1, Some c2 =>
              match a, b with
              | Some x, Some y => inl {| r_link := l; r_v1 := x; r_v2 := y; r_class := c; r_c1 := c1; r_c2 := c2 |}
              | _, _ => inr AttributeError      (* a configured NoneType: not reachable with the harness tables *)
              end
          | _, _ => inr ValueError
          end
      | _, _ => inr IndexError
      end
  end.
Fixpoint puml_rels (conf : pcls -> bool) (s : state) (ls : list nat) : list prel + exn :=
  match ls with
  | [] => inl []
  | l :: r => match puml_rel conf s l, puml_rels conf s r with
              | inl x, inl xs => inl (x :: xs)
              | inr e, _ => inr e
              | _, inr e => inr e
              end
  end.
(* the set of links of the member vertices (the code unions Python sets; the model keeps first
   occurrences in member / link order — the line SET is what is compared) *)
Definition member_links (s : state) (vs : list nat) : list nat := dedup (flat_map (vl s) vs).
Definition render_puml (conf : pcls -> bool) (s : state) (u : nat) : ures :=
  match uv s u with
  | [] => UOk None
  | vs =>
      match puml_decls conf s vs with
      | None => UErr ValueError
      | Some ds => match puml_rels conf s (member_links s vs) with
                   | inl rs => UOk (Some {| decls := ds; rels := rs |})
                   | inr e => UErr e
                   end
      end
  end.
