(* Footprint.v — which fields each family of fuelled methods can write: any predicate stable
   under those setters is preserved (on normal and on raising exits).  Instances give wf
   preservation, kind preservation and the frame lemmas between the three families. *)
From EG Require Import Base Lemmas State StateLemmas Nbrs Struct.
#[global] Opaque FUEL.

Section LinkFootprint.
  Variable P : state -> Prop.
  Hypothesis Pvl : forall s v x, P s -> P (set_vl s v x).
  Hypothesis Plv : forall s l x, P s -> P (set_lv s l x).
  Hypothesis Pca : forall s v x, P s -> P (set_ca s v x).

  Lemma P_inval s v : P s -> P (inval s v). Proof. unfold inval; auto. Qed.
  Lemma P_inval_all vs : forall s, P s -> P (inval_all s vs).
  Proof. induction vs as [|[v|] r IH]; cbn; auto using P_inval. Qed.
  Hint Resolve P_inval P_inval_all : core.

  Lemma P_bind r k : P (res_state r) -> (forall s, P s -> P (res_state (k s))) -> P (res_state (bind r k)).
  Proof. destruct r; cbn; auto. Qed.

  Lemma P_add fuel : forall s, P s ->
    (forall v l, P (res_state (v_add_to_link fuel s v l))) /\ (forall l ov, P (res_state (l_add_vertex fuel s l ov))).
  Proof.
    induction fuel as [|f IH]; intros s Hs; split; intros; cbn; auto.
    - destruct (memn _ _); cbn; auto. destruct (memo _ _); cbn; auto.
      apply P_bind; [apply IH; auto | intros; cbn; auto].
    - destruct ov as [v|]; cbn; auto. destruct (memn _ _); cbn; auto.
      apply P_bind; [apply IH; auto | intros; cbn; auto].
  Qed.
  Lemma P_remove fuel : forall s, P s ->
    (forall v l, P (res_state (v_remove_from_link fuel s v l))) /\ (forall l ov, P (res_state (l_unlink_from fuel s l ov))).
  Proof.
    induction fuel as [|f IH]; intros s Hs; split; intros; cbn; auto.
    - destruct (memn _ _); cbn; auto. apply P_bind; [apply IH; auto | intros; cbn; auto].
    - destruct (memo _ _); cbn; auto. destruct ov as [v|]; cbn; auto.
      apply P_bind; [apply IH; auto | intros; cbn; auto].
  Qed.
  Lemma P_v_add_to_link fuel s v l : P s -> P (res_state (v_add_to_link fuel s v l)).
  Proof. intro; now apply P_add. Qed.
  Lemma P_l_add_vertex fuel s l ov : P s -> P (res_state (l_add_vertex fuel s l ov)).
  Proof. intro; now apply P_add. Qed.
  Lemma P_v_remove_from_link fuel s v l : P s -> P (res_state (v_remove_from_link fuel s v l)).
  Proof. intro; now apply P_remove. Qed.
  Lemma P_l_unlink_from fuel s l ov : P s -> P (res_state (l_unlink_from fuel s l ov)).
  Proof. intro; now apply P_remove. Qed.
  Lemma P_l_set_end fuel s l idx new : P s -> P (res_state (l_set_end fuel s l idx new)).
  Proof.
    intro Hs. unfold l_set_end. destruct (lv1 s l); [|auto]. destruct (lv2 s l); [|auto].
    apply P_bind.
    - destruct (if Nat.eqb idx 0 then o else o0); cbn; auto. destruct (memo _ _); cbn; auto.
      apply P_v_remove_from_link; auto.
    - intros s2 H2. apply P_bind.
      + destruct new; cbn; auto. destruct (memn _ _); cbn; auto. apply P_v_add_to_link; auto.
      + intros; cbn; auto.
  Qed.
  Lemma P_seq_res f xs : (forall s x, P s -> P (res_state (f s x))) -> forall s, P s -> P (res_state (seq_res f xs s)).
  Proof. intro Hf. induction xs as [|x r IH]; intros s Hs; cbn; auto. apply P_bind; auto. Qed.
  Lemma P_seq_ores f xs : (forall s x, P s -> P (res_state (f s x))) -> forall s, P s -> P (res_state (seq_ores f xs s)).
  Proof. intro Hf. induction xs as [|x r IH]; intros s Hs; cbn; auto. apply P_bind; auto. Qed.
End LinkFootprint.

Section UniFootprint.
  Variable P : state -> Prop.
  Hypothesis Pvu : forall s v x, P s -> P (set_vu s v x).
  Hypothesis Puv : forall s l x, P s -> P (set_uv s l x).

  Lemma P_uadd fuel : forall s, P s ->
    (forall u v, P (res_state (u_add_vertex fuel s u v))) /\ (forall v u, P (res_state (v_add_to_universe fuel s v u))).
  Proof.
    induction fuel as [|f IH]; intros s Hs; split; intros; cbn; auto.
    - destruct (memn _ _); cbn; auto. destruct (memn _ _); cbn; auto. apply IH; auto.
    - destruct (memn u (vu s v)); cbn; (destruct (memn _ _); cbn; auto; apply IH; auto).
  Qed.
  Lemma P_uremove fuel : forall s, P s ->
    (forall u v, P (res_state (u_remove_vertex fuel s u v))) /\ (forall v u, P (res_state (v_remove_from_universe fuel s v u))).
  Proof.
    induction fuel as [|f IH]; intros s Hs; split; intros; cbn; auto.
    - destruct (memn _ _); cbn; auto. destruct (memn _ _); cbn; auto. apply IH; auto.
    - destruct (memn _ _); cbn; auto. destruct (memn _ _); cbn; auto. apply IH; auto.
  Qed.
  Lemma P_u_add_vertex fuel s u v : P s -> P (res_state (u_add_vertex fuel s u v)).
  Proof. intro; now apply P_uadd. Qed.
  Lemma P_v_add_to_universe fuel s v u : P s -> P (res_state (v_add_to_universe fuel s v u)).
  Proof. intro; now apply P_uadd. Qed.
  Lemma P_u_remove_vertex fuel s u v : P s -> P (res_state (u_remove_vertex fuel s u v)).
  Proof. intro; now apply P_uremove. Qed.
  Lemma P_v_remove_from_universe fuel s v u : P s -> P (res_state (v_remove_from_universe fuel s v u)).
  Proof. intro; now apply P_uremove. Qed.
End UniFootprint.

Section LawsFootprint.
  Variable P : state -> Prop.
  Hypothesis Pul : forall s v x, P s -> P (set_ul s v x).
  Hypothesis Pla : forall s l x, P s -> P (set_la s l x).

  Lemma P_laws fuel : forall s, P s ->
    (forall u oL, P (res_state (u_set_laws fuel s u oL))) /\ (forall L ou, P (res_state (l_set_applies fuel s L ou))).
  Proof.
    induction fuel as [|f IH]; intros s Hs; split; intros; cbn; auto.
    - destruct (oeqb _ _); cbn; auto. apply P_bind.
      + destruct (ul s u); cbn; auto. destruct (oeqb _ _); cbn; auto. apply IH; auto.
      + intros s2 H2. destruct oL; cbn; auto. apply IH; auto.
    - destruct (oeqb _ _); cbn; auto. apply P_bind.
      + destruct (la s L); cbn; auto. destruct (oeqb _ _); cbn; auto. apply IH; auto.
      + intros s2 H2. destruct (la s2 L); cbn; auto. apply IH; auto.
  Qed.
  Lemma P_u_set_laws fuel s u oL : P s -> P (res_state (u_set_laws fuel s u oL)).
  Proof. intro; now apply P_laws. Qed.
  Lemma P_l_set_applies fuel s L ou : P s -> P (res_state (l_set_applies fuel s L ou)).
  Proof. intro; now apply P_laws. Qed.
End LawsFootprint.

(* a predicate stable under every setter and under allocation is preserved by every step *)
Section StepFootprint.
  Variable P : state -> Prop.
  Hypothesis Pvl : forall s v x, P s -> P (set_vl s v x).
  Hypothesis Plv : forall s l x, P s -> P (set_lv s l x).
  Hypothesis Pca : forall s v x, P s -> P (set_ca s v x).
  Hypothesis Pvu : forall s v x, P s -> P (set_vu s v x).
  Hypothesis Puv : forall s l x, P s -> P (set_uv s l x).
  Hypothesis Pul : forall s v x, P s -> P (set_ul s v x).
  Hypothesis Pla : forall s l x, P s -> P (set_la s l x).
  Hypothesis Pcg : forall s b, P s -> P (set_caching s b).
  Hypothesis Pal : forall s k, P s -> P (alloc k s).

  Lemma P_ok_or r v : P (res_state r) -> P (res_state (fst (ok_or r v))).
  Proof. destruct r; cbn; auto. Qed.
  Lemma P_new_edge s k a b : P s -> P (res_state (fst (new_edge s k a b))).
  Proof.
    intro Hs. unfold new_edge. destruct (_ || _); cbn [fst res_state]; auto.
    cbn [seq_ores]. apply P_bind. { apply P_l_add_vertex; auto. }
    intros s1 H1. apply P_bind. { apply P_l_add_vertex; auto. }
    intros; cbn [res_state]; auto.
  Qed.

  Lemma P_step s o : P s -> P (fst (step s o)).
  Proof.
    intro Hs. unfold step. destruct (negb (well_typed s o)); [exact Hs|].
    destruct o; cbn [fst snd].
    - (* NewVertex *)
      match goal with |- P (fst (let '(r, out) := ok_or ?R ?V in _)) => assert (HR : P (res_state R)) end.
      { apply P_bind.
        - apply P_seq_res; auto. intros. apply P_v_add_to_link; auto.
        - intros s1 H1. apply P_seq_res; auto. intros. apply P_u_add_vertex; auto. }
      destruct (bind _ _); cbn in *; auto.
    - (* NewUniverse *)
      destruct oL as [L|].
      + match goal with |- P (fst (let '(r, out) := ok_or ?R ?V in _)) => assert (HR : P (res_state R)) end.
        { apply P_bind. - apply P_l_set_applies; auto.
          - intros s1 H1. apply P_seq_res; auto. intros. apply P_u_add_vertex; auto. }
        destruct (bind _ _); cbn in *; auto.
      + match goal with |- P (fst (let '(r, out) := ok_or ?R ?V in _)) => assert (HR : P (res_state R)) end.
        { apply P_bind. - apply P_l_set_applies; auto.
          - intros s1 H1. apply P_seq_res; auto. intros. apply P_u_add_vertex; auto. }
        destruct (bind _ _); cbn in *; auto.
    - cbn. auto.
    - pose proof (P_new_edge s k a b Hs). destruct (new_edge s k a b). cbn in *. auto.
    - pose proof (P_l_set_end P Pvl Plv Pca FUEL s l 0 ov Hs). destruct (l_set_end _ _ _ _ _); cbn in *; auto.
    - pose proof (P_l_set_end P Pvl Plv Pca FUEL s l 1 ov Hs). destruct (l_set_end _ _ _ _ _); cbn in *; auto.
    - pose proof (P_v_add_to_link P Pvl Plv Pca FUEL s v l Hs). destruct (v_add_to_link _ _ _ _); cbn in *; auto.
    - pose proof (P_v_remove_from_link P Pvl Plv Pca FUEL s v l Hs). destruct (v_remove_from_link _ _ _ _); cbn in *; auto.
    - pose proof (P_l_add_vertex P Pvl Plv Pca FUEL s l ov Hs). destruct (l_add_vertex _ _ _ _); cbn in *; auto.
    - pose proof (P_l_unlink_from P Pvl Plv Pca FUEL s l ov Hs). destruct (l_unlink_from _ _ _ _); cbn in *; auto.
    - (* LinkFromTo *)
      destruct (if dontdup then _ else _) as [[l|]|]; cbn; auto.
      pose proof (P_new_edge s k (Some a) (Some b) Hs). destruct (new_edge _ _ _ _). cbn in *. auto.
    - (* Unlink *)
      destruct (find_links _ _ _ _ _ _ _) as [links|e]; cbn; auto.
      match goal with |- P (fst (let '(r, out) := ok_or ?R ?V in _)) => assert (HR : P (res_state R)) end.
      { apply P_seq_res; auto. intros s1 l H1. cbn beta. apply P_bind. { cbn beta. apply P_l_unlink_from; auto. }
        intros. cbn beta. apply P_l_unlink_from; auto. }
      destruct (seq_res _ _ _); cbn in *; auto.
    - pose proof (P_u_add_vertex P Pvu Puv FUEL s u v Hs). destruct (u_add_vertex _ _ _ _); cbn in *; auto.
    - pose proof (P_u_remove_vertex P Pvu Puv FUEL s u v Hs). destruct (u_remove_vertex _ _ _ _); cbn in *; auto.
    - pose proof (P_v_add_to_universe P Pvu Puv FUEL s v u Hs). destruct (v_add_to_universe _ _ _ _); cbn in *; auto.
    - pose proof (P_v_remove_from_universe P Pvu Puv FUEL s v u Hs). destruct (v_remove_from_universe _ _ _ _); cbn in *; auto.
    - pose proof (P_u_set_laws P Pul Pla FUEL s u oL Hs). destruct (u_set_laws _ _ _ _); cbn in *; auto.
    - pose proof (P_l_set_applies P Pul Pla FUEL s L ou Hs). destruct (l_set_applies _ _ _ _); cbn in *; auto.
    - cbn. auto.
  Qed.
End StepFootprint.

Lemma wf_step s o : wf s -> wf (fst (step s o)).
Proof. apply P_step; auto with st. Qed.
Lemma wf_run ops : forall s, wf s -> wf (run ops s).
Proof. induction ops as [|o r IH]; cbn; auto. intros s H. apply IH. now apply wf_step. Qed.
