(* Base.v — ids, list-indexed heap algebra, membership / removal on id lists.
   Model-side file: definitions + their basic algebra only. Stdlib only. *)
From Coq Require Export List Arith Bool Lia.
Export ListNotations.

Section Heap.
  Context {A : Type}.
  Variable dflt : A.
  Fixpoint set (i : nat) (a : A) (h : list A) : list A :=
    match h, i with
    | [], _ => []
    | _ :: t, 0 => a :: t
    | x :: t, S j => x :: set j a t
    end.
  Definition get (i : nat) (h : list A) : A := nth i h dflt.

  Lemma set_length i a h : length (set i a h) = length h.
  Proof. revert i; induction h; destruct i; cbn; auto. Qed.
  Lemma get_set_same i a h : i < length h -> get i (set i a h) = a.
  Proof. revert i; induction h; destruct i; cbn; intros; try lia; auto. apply IHh; lia. Qed.
  Lemma get_set_other i j a h : i <> j -> get j (set i a h) = get j h.
  Proof. unfold get. revert i j; induction h as [|x h IH]; destruct i, j; cbn; intros Hij; try congruence; auto. Qed.
  Lemma set_get i h : set i (get i h) h = h.
  Proof. revert i; induction h; destruct i; cbn; auto. unfold get in *. cbn. f_equal. apply IHh. Qed.
  Lemma set_set i a b h : set i a (set i b h) = set i a h.
  Proof. revert i; induction h; destruct i; cbn; auto. f_equal; auto. Qed.
  Lemma set_comm i j a b h : i <> j -> set i a (set j b h) = set j b (set i a h).
  Proof. revert i j; induction h; destruct i, j; cbn; intros; try congruence; auto. f_equal; auto. Qed.
  Lemma get_app_old i h x : i < length h -> get i (h ++ x) = get i h.
  Proof. intro H. unfold get. now rewrite app_nth1. Qed.
  Lemma get_app_new h x : get (length h) (h ++ [x]) = x.
  Proof. unfold get. rewrite app_nth2 by lia. now rewrite Nat.sub_diag. Qed.
  Lemma set_app_old i a h x : i < length h -> set i a (h ++ x) = set i a h ++ x.
  Proof. revert i; induction h; destruct i; cbn; intros; try lia; auto. f_equal. apply IHh. lia. Qed.
  Lemma get_default i h : length h <= i -> get i h = dflt.
  Proof. intro H. unfold get. now apply nth_overflow. Qed.
  Lemma set_outside i a h : length h <= i -> set i a h = h.
  Proof. revert i; induction h; destruct i; cbn; intros; try lia; auto. f_equal. apply IHh. lia. Qed.
End Heap.

(* option nat equality, membership by identity (Python `in` on objects with default __eq__) *)
Definition oeqb (a b : option nat) : bool :=
  match a, b with Some x, Some y => Nat.eqb x y | None, None => true | _, _ => false end.
Lemma oeqb_eq a b : oeqb a b = true <-> a = b.
Proof. destruct a, b; cbn; try (split; congruence). rewrite Nat.eqb_eq. split; congruence. Qed.
Lemma oeqb_refl a : oeqb a a = true. Proof. now apply oeqb_eq. Qed.
Lemma oeqb_neq a b : oeqb a b = false <-> a <> b.
Proof. split; intro H. - intro E. apply oeqb_eq in E. congruence.
  - destruct (oeqb a b) eqn:E; auto. apply oeqb_eq in E. contradiction. Qed.

Definition memn (x : nat) (l : list nat) : bool := existsb (Nat.eqb x) l.
Definition memo (x : option nat) (l : list (option nat)) : bool := existsb (oeqb x) l.
Lemma memn_In x l : memn x l = true <-> In x l.
Proof. unfold memn. rewrite existsb_exists. split; [intros [y [H E]]; apply Nat.eqb_eq in E; now subst | intro; exists x; split; auto; apply Nat.eqb_refl]. Qed.
Lemma memo_In x l : memo x l = true <-> In x l.
Proof. unfold memo. rewrite existsb_exists. split; [intros [y [H E]]; apply oeqb_eq in E; now subst | intro; exists x; split; auto; now apply oeqb_eq]. Qed.
Lemma memn_nIn x l : memn x l = false <-> ~ In x l.
Proof. rewrite <- memn_In. destruct (memn x l); split; congruence. Qed.
Lemma memo_nIn x l : memo x l = false <-> ~ In x l.
Proof. rewrite <- memo_In. destruct (memo x l); split; congruence. Qed.

(* list.remove(x): first occurrence *)
Fixpoint remove1 (x : nat) (l : list nat) : list nat :=
  match l with [] => [] | y :: t => if Nat.eqb x y then t else y :: remove1 x t end.
Fixpoint oremove1 (x : option nat) (l : list (option nat)) : list (option nat) :=
  match l with [] => [] | y :: t => if oeqb x y then t else y :: oremove1 x t end.
Definition oremove_all (x : option nat) (l : list (option nat)) : list (option nat) :=
  filter (fun y => negb (oeqb x y)) l.

(* dict.fromkeys de-duplication: keep first occurrences, in order *)
Fixpoint dedup_acc (seen l : list nat) : list nat :=
  match l with
  | [] => []
  | x :: t => if memn x seen then dedup_acc seen t else x :: dedup_acc (x :: seen) t
  end.
Definition dedup (l : list nat) : list nat := dedup_acc [] l.

Fixpoint list_eqb {A} (eqb : A -> A -> bool) (a b : list A) : bool :=
  match a, b with
  | [], [] => true
  | x :: a', y :: b' => eqb x y && list_eqb eqb a' b'
  | _, _ => false
  end.
Lemma list_eqb_eq {A} (eqb : A -> A -> bool) :
  (forall x y, eqb x y = true <-> x = y) -> forall a b, list_eqb eqb a b = true <-> a = b.
Proof.
  intros H a. induction a as [|x a IH]; destruct b as [|y b]; cbn; try (split; congruence).
  rewrite andb_true_iff, H, IH. split; [intros [-> ->]; auto | intro E; inversion E; auto].
Qed.
Definition opt_eqb {A} (eqb : A -> A -> bool) (a b : option A) : bool :=
  match a, b with Some x, Some y => eqb x y | None, None => true | _, _ => false end.

(* indices of the false entries: used by generated cases files to report disagreeing cases *)
Fixpoint bad_from (i : nat) (l : list bool) : list nat :=
  match l with [] => [] | b :: t => if b then bad_from (S i) t else i :: bad_from (S i) t end.
Definition mismatches (l : list bool) : list nat := bad_from 0 l.

(* insertion sort on ids: canonical form of a set of objects *)
Fixpoint insert_sorted (x : nat) (l : list nat) : list nat :=
  match l with [] => [x] | y :: t => if Nat.leb x y then x :: l else y :: insert_sorted x t end.
Fixpoint sort (l : list nat) : list nat :=
  match l with [] => [] | x :: t => insert_sorted x (sort t) end.
