(* StateLemmas.v — algebra of getters / setters / alloc over the struct-of-arrays heap. *)
From EG Require Import Base Lemmas State.

Arguments get : simpl never.
Arguments set : simpl never.

Lemma wf_empty : wf empty.
Proof. repeat split. Qed.

Ltac wf_crush := unfold wf, next in *; cbn [kind vlinks lverts vunis uverts ulaws lapp cache caching
  set_vl set_lv set_vu set_uv set_ul set_la set_ca set_caching alloc] in *;
  rewrite ?set_length, ?app_length in *; cbn [length] in *; intuition lia.

Lemma wf_set_vl s v x : wf s -> wf (set_vl s v x). Proof. intro; wf_crush. Qed.
Lemma wf_set_lv s v x : wf s -> wf (set_lv s v x). Proof. intro; wf_crush. Qed.
Lemma wf_set_vu s v x : wf s -> wf (set_vu s v x). Proof. intro; wf_crush. Qed.
Lemma wf_set_uv s v x : wf s -> wf (set_uv s v x). Proof. intro; wf_crush. Qed.
Lemma wf_set_ul s v x : wf s -> wf (set_ul s v x). Proof. intro; wf_crush. Qed.
Lemma wf_set_la s v x : wf s -> wf (set_la s v x). Proof. intro; wf_crush. Qed.
Lemma wf_set_ca s v x : wf s -> wf (set_ca s v x). Proof. intro; wf_crush. Qed.
Lemma wf_set_caching s b : wf s -> wf (set_caching s b). Proof. intro; wf_crush. Qed.
Lemma wf_alloc s k : wf s -> wf (alloc k s). Proof. intro; wf_crush. Qed.
#[export] Hint Resolve wf_empty wf_set_vl wf_set_lv wf_set_vu wf_set_uv wf_set_ul wf_set_la wf_set_ca wf_set_caching wf_alloc : st.

(* next / kind / valid are untouched by setters *)
Lemma next_set_vl s v x : next (set_vl s v x) = next s. Proof. reflexivity. Qed.
Lemma next_set_lv s v x : next (set_lv s v x) = next s. Proof. reflexivity. Qed.
Lemma next_set_vu s v x : next (set_vu s v x) = next s. Proof. reflexivity. Qed.
Lemma next_set_uv s v x : next (set_uv s v x) = next s. Proof. reflexivity. Qed.
Lemma next_set_ul s v x : next (set_ul s v x) = next s. Proof. reflexivity. Qed.
Lemma next_set_la s v x : next (set_la s v x) = next s. Proof. reflexivity. Qed.
Lemma next_set_ca s v x : next (set_ca s v x) = next s. Proof. reflexivity. Qed.
Lemma next_set_caching s b : next (set_caching s b) = next s. Proof. reflexivity. Qed.
Lemma next_alloc s k : next (alloc k s) = S (next s).
Proof. unfold next, alloc; cbn. rewrite app_length. cbn. lia. Qed.

Lemma valid_lt s i : valid s i = true <-> i < next s.
Proof. unfold valid. apply Nat.ltb_lt. Qed.

(* same-field reads *)
Section SameField.
  Variable s : state.
  Hypothesis W : wf s.
  Variable i : nat.
  Hypothesis V : i < next s.
  Lemma vl_set_vl_same x : vl (set_vl s i x) i = x.
  Proof. unfold vl; cbn. apply get_set_same. wf_crush. Qed.
  Lemma lv_set_lv_same x : lv (set_lv s i x) i = x.
  Proof. unfold lv; cbn. apply get_set_same. wf_crush. Qed.
  Lemma vu_set_vu_same x : vu (set_vu s i x) i = x.
  Proof. unfold vu; cbn. apply get_set_same. wf_crush. Qed.
  Lemma uv_set_uv_same x : uv (set_uv s i x) i = x.
  Proof. unfold uv; cbn. apply get_set_same. wf_crush. Qed.
  Lemma ul_set_ul_same x : ul (set_ul s i x) i = x.
  Proof. unfold ul; cbn. apply get_set_same. wf_crush. Qed.
  Lemma la_set_la_same x : la (set_la s i x) i = x.
  Proof. unfold la; cbn. apply get_set_same. wf_crush. Qed.
  Lemma ca_set_ca_same x : ca (set_ca s i x) i = x.
  Proof. unfold ca; cbn. apply get_set_same. wf_crush. Qed.
End SameField.

Lemma vl_set_vl_other s i j x : i <> j -> vl (set_vl s i x) j = vl s j.
Proof. intro. unfold vl; cbn. now apply get_set_other. Qed.
Lemma lv_set_lv_other s i j x : i <> j -> lv (set_lv s i x) j = lv s j.
Proof. intro. unfold lv; cbn. now apply get_set_other. Qed.
Lemma vu_set_vu_other s i j x : i <> j -> vu (set_vu s i x) j = vu s j.
Proof. intro. unfold vu; cbn. now apply get_set_other. Qed.
Lemma uv_set_uv_other s i j x : i <> j -> uv (set_uv s i x) j = uv s j.
Proof. intro. unfold uv; cbn. now apply get_set_other. Qed.
Lemma ul_set_ul_other s i j x : i <> j -> ul (set_ul s i x) j = ul s j.
Proof. intro. unfold ul; cbn. now apply get_set_other. Qed.
Lemma la_set_la_other s i j x : i <> j -> la (set_la s i x) j = la s j.
Proof. intro. unfold la; cbn. now apply get_set_other. Qed.
Lemma ca_set_ca_other s i j x : i <> j -> ca (set_ca s i x) j = ca s j.
Proof. intro. unfold ca; cbn. now apply get_set_other. Qed.

(* cross-field reads are definitional; this tactic exposes them *)
Ltac xfield := cbn [kd vl lv vu uv ul la ca kind vlinks lverts vunis uverts ulaws lapp cache caching
  set_vl set_lv set_vu set_uv set_ul set_la set_ca set_caching] in *.

(* a setter with the value already there is the identity *)
Lemma set_vl_id s v : set_vl s v (vl s v) = s.
Proof. destruct s; unfold set_vl, vl; cbn. now rewrite set_get. Qed.
Lemma set_lv_id s v : set_lv s v (lv s v) = s.
Proof. destruct s; unfold set_lv, lv; cbn. now rewrite set_get. Qed.
Lemma set_vu_id s v : set_vu s v (vu s v) = s.
Proof. destruct s; unfold set_vu, vu; cbn. now rewrite set_get. Qed.
Lemma set_uv_id s v : set_uv s v (uv s v) = s.
Proof. destruct s; unfold set_uv, uv; cbn. now rewrite set_get. Qed.

(* alloc *)
Section Alloc.
  Variable s : state.
  Hypothesis W : wf s.
  Variable k : cls.
  Lemma kd_alloc_new : kd (alloc k s) (next s) = k.
  Proof. unfold kd, alloc, next; cbn. apply get_app_new. Qed.
  Lemma kd_alloc_old i : i < next s -> kd (alloc k s) i = kd s i.
  Proof. intro. unfold kd, alloc; cbn. now apply get_app_old. Qed.
  Lemma vl_alloc_old i : i < next s -> vl (alloc k s) i = vl s i.
  Proof. intro. unfold vl, alloc; cbn. apply get_app_old. wf_crush. Qed.
  Lemma lv_alloc_old i : i < next s -> lv (alloc k s) i = lv s i.
  Proof. intro. unfold lv, alloc; cbn. apply get_app_old. wf_crush. Qed.
  Lemma vu_alloc_old i : i < next s -> vu (alloc k s) i = vu s i.
  Proof. intro. unfold vu, alloc; cbn. apply get_app_old. wf_crush. Qed.
  Lemma uv_alloc_old i : i < next s -> uv (alloc k s) i = uv s i.
  Proof. intro. unfold uv, alloc; cbn. apply get_app_old. wf_crush. Qed.
  Lemma ul_alloc_old i : i < next s -> ul (alloc k s) i = ul s i.
  Proof. intro. unfold ul, alloc; cbn. apply get_app_old. wf_crush. Qed.
  Lemma la_alloc_old i : i < next s -> la (alloc k s) i = la s i.
  Proof. intro. unfold la, alloc; cbn. apply get_app_old. wf_crush. Qed.
  Lemma ca_alloc_old i : i < next s -> ca (alloc k s) i = ca s i.
  Proof. intro. unfold ca, alloc; cbn. apply get_app_old. wf_crush. Qed.
  Lemma vl_alloc_new : vl (alloc k s) (next s) = [].
  Proof. unfold vl, alloc; cbn. destruct W as (H & _). rewrite <- H. apply get_app_new. Qed.
  Lemma lv_alloc_new : lv (alloc k s) (next s) = [].
  Proof. unfold lv, alloc; cbn. destruct W as (_ & H & _). rewrite <- H. apply get_app_new. Qed.
  Lemma vu_alloc_new : vu (alloc k s) (next s) = [].
  Proof. unfold vu, alloc; cbn. destruct W as (_ & _ & H & _). rewrite <- H. apply get_app_new. Qed.
  Lemma uv_alloc_new : uv (alloc k s) (next s) = [].
  Proof. unfold uv, alloc; cbn. destruct W as (_ & _ & _ & H & _). rewrite <- H. apply get_app_new. Qed.
  Lemma ul_alloc_new : ul (alloc k s) (next s) = None.
  Proof. unfold ul, alloc; cbn. destruct W as (_ & _ & _ & _ & H & _). rewrite <- H. apply get_app_new. Qed.
  Lemma la_alloc_new : la (alloc k s) (next s) = None.
  Proof. unfold la, alloc; cbn. destruct W as (_ & _ & _ & _ & _ & H & _). rewrite <- H. apply get_app_new. Qed.
End Alloc.

(* reads beyond the heap give the defaults *)
Lemma vl_outside s i : wf s -> next s <= i -> vl s i = [].
Proof. intros W H. unfold vl. apply get_default. wf_crush. Qed.
Lemma lv_outside s i : wf s -> next s <= i -> lv s i = [].
Proof. intros W H. unfold lv. apply get_default. wf_crush. Qed.
Lemma vu_outside s i : wf s -> next s <= i -> vu s i = [].
Proof. intros W H. unfold vu. apply get_default. wf_crush. Qed.
Lemma uv_outside s i : wf s -> next s <= i -> uv s i = [].
Proof. intros W H. unfold uv. apply get_default. wf_crush. Qed.
