(* TravStateProofs.v — the abstract traversal / search theorems of TravProofs.v and SearchProofs.v
   transported to concrete heap states (TravState.v: s_bft, s_dft_rec, s_dft_iter, s_bfs, s_dfs_rec,
   s_dfs_iter, with neighbours computed by Nbrs.neighbors_pure and fuel trav_fuel s = (next s + 2)^2).
   Stdlib only; nothing admitted; every target is "Closed under the global context" (see the
   Print Assumptions at the end).

   On every well-formed heap satisfying the link association invariant (wf s, link_inv s):

   1  neighbors_bounded     bounded (t_nb filt s d u fv) (next s): every `Some y` in a neighbour list
                            is an allocated object id (it is one of the first two entries of some
                            lv s l, link_inv_valid)
   2  neighbors_length_le   neighbors_pure filt s v d u fv = NOk ns -> length ns <= next s
                            (at most one entry per link of vl s v, which is duplicate-free and
                            bounded: pigeonhole nodup_bounded_length)
   3  TERMINATION           s_bft_terminates s_dft_rec_terminates s_dft_iter_terminates : ... <> TFuel
                            s_bfs_terminates s_dfs_rec_terminates s_dfs_iter_terminates : ... <> SFuel
                            for every start (allocated or not), universe, direction, unknown-handling,
                            filter and ff_result: trav_fuel s is always enough
                            (dfi_fuel_le_trav_fuel: dfi_fuel (t_nb ..) (next s) start <= trav_fuel s)
   4  heap-level restatements
      s_exact_bft s_exact_dfr s_exact_dfi   NoDup out, start first, In v out <-> reach
      s_three_agree                          the three listings are permutations of each other
      s_ff_result_bft/dfr/dfi                s_T .. fr = tmap fr (s_T .. all)
      s_search_first_match_bfs/dfr/dfi       s_T filt s ou start Fwd UErr None all = TOk out ->
                                             s_search filt s ou start m = SOk (find m out)
      s_total_bft/dfr/dfi                    the result is TOk or TErr (never TFuel), as a disjunction
      s_determinism_bft/dfr/dfi, s_determinism (their conjunction)
                                             heaps agreeing on vlinks, lverts, kind, uverts give
                                             equal traversal results: the order is a function of
                                             the link order alone (neighbors_pure_reads:
                                             neighbors_pure reads vlinks, lverts, kind only)
   (`all` below is TravProofs.all = fun _ => true; SearchProofs.all is the same term.)             *)
From EG Require Import Base State Nbrs Trav TravProofs SearchProofs TravState LinkProofs LinkStep.
From Coq Require Import Permutation Lia.

Notation all := TravProofs.all.

(* ------------------------------------------------------------------------------------------- *)
(* 1. neighbours are allocated objects                                                          *)
(* ------------------------------------------------------------------------------------------- *)

Lemma other_val_in s l e y : other s l e = OVal (Some y) -> In (Some y) (lv s l).
Proof.
  unfold other, lv1, lv2. intro H.
  destruct (nth_error (lv s l) 0) as [a|] eqn:E1; [|discriminate].
  destruct (nth_error (lv s l) 1) as [b|] eqn:E2.
  - destruct (oeqb e a).
    + inversion H; subst. eapply nth_error_In; exact E2.
    + destruct (oeqb e b); inversion H; subst. eapply nth_error_In; exact E1.
  - destruct (oeqb e a); discriminate.
Qed.

Lemma nb_link_add filt s v d u f l o :
  nb_link filt s v d u f l = LAdd o -> other s l (Some v) = OVal o.
Proof.
  unfold nb_link. destruct (other s l (Some v)) as [|v2]; [discriminate|].
  intro H. f_equal.
  destruct d, u;
    repeat match type of H with
           | context [if ?c then _ else _] => destruct c
           end; try discriminate; inversion H; reflexivity.
Qed.

Lemma nb_loop_bounded filt s v d u f N :
  (forall l y, other s l (Some v) = OVal (Some y) -> y < N) ->
  forall ls acc ns, (forall y, In (Some y) acc -> y < N) ->
  nb_loop filt s v d u f ls acc = NOk ns -> forall y, In (Some y) ns -> y < N.
Proof.
  intro Ho. induction ls as [|l r IH]; intros acc ns Hacc H y Hy; cbn in H.
  - inversion H; subst. auto.
  - destruct (nb_link filt s v d u f l) as [|o|e] eqn:E.
    + eapply IH; eauto.
    + eapply (IH (acc ++ [o])); [|exact H|exact Hy].
      intros z Hz. apply in_app_or in Hz. destruct Hz as [Hz|[Hz|[]]]; [auto|].
      subst o. apply nb_link_add in E. eapply Ho; exact E.
    + discriminate.
Qed.

Theorem neighbors_bounded filt s d u fv :
  wf s -> link_inv s -> bounded (t_nb filt s d u fv) (next s).
Proof.
  intros Hwf Hli x ns y H Hy. unfold t_nb, neighbors_pure in H.
  eapply nb_loop_bounded; [| |exact H|exact Hy].
  - intros l z Hz. apply other_val_in in Hz.
    destruct (link_inv_valid s z l Hwf Hli Hz) as [Hlt _]. exact Hlt.
  - intros z [].
Qed.

(* ------------------------------------------------------------------------------------------- *)
(* 2. neighbour lists are short                                                                 *)
(* ------------------------------------------------------------------------------------------- *)

Lemma nodup_bounded_length (l : list nat) n :
  NoDup l -> (forall x, In x l -> x < n) -> length l <= n.
Proof.
  intros Hnd Hb. rewrite <- (seq_length n 0). apply NoDup_incl_length; [exact Hnd|].
  intros x Hx. apply in_seq. specialize (Hb x Hx). lia.
Qed.

Lemma nb_loop_length filt s v d u f : forall ls acc ns,
  nb_loop filt s v d u f ls acc = NOk ns -> length ns <= length acc + length ls.
Proof.
  induction ls as [|l r IH]; intros acc ns H; cbn in H.
  - inversion H; subst. cbn. lia.
  - destruct (nb_link filt s v d u f l) as [|o|e].
    + apply IH in H. cbn. lia.
    + apply IH in H. rewrite app_length in H. cbn in *. lia.
    + discriminate.
Qed.

Lemma vl_length_le s v : wf s -> link_inv s -> length (vl s v) <= next s.
Proof.
  intros Hwf Hli. apply nodup_bounded_length.
  - destruct Hli as [_ Hnd]. apply Hnd.
  - intros l Hl. destruct (link_inv_valid' s v l Hwf Hli Hl) as [_ Hlt]. exact Hlt.
Qed.

Theorem neighbors_length_le filt s v d u fv ns :
  wf s -> link_inv s -> neighbors_pure filt s v d u fv = NOk ns -> length ns <= next s.
Proof.
  intros Hwf Hli H. unfold neighbors_pure in H. apply nb_loop_length in H. cbn in H.
  pose proof (vl_length_le s v Hwf Hli). lia.
Qed.

(* ------------------------------------------------------------------------------------------- *)
(* 3. termination on states                                                                     *)
(* ------------------------------------------------------------------------------------------- *)

Lemma trav_fuel_ge s : next s + 3 <= trav_fuel s.
Proof. unfold trav_fuel. nia. Qed.

Theorem s_bft_terminates filt s ou start d u fv fr :
  wf s -> link_inv s -> s_bft filt s ou start d u fv fr <> TFuel.
Proof.
  intros Hwf Hli. unfold s_bft.
  pose proof (bft_fuel_enough (t_nb filt s d u fv) (t_uni s ou) fr (next s) start
                (neighbors_bounded filt s d u fv Hwf Hli)) as Hne.
  rewrite (fuel_mono_bft _ _ _ _ _ _ eq_refl Hne _ (trav_fuel_ge s)). exact Hne.
Qed.

Theorem s_dft_rec_terminates filt s ou start d u fv fr :
  wf s -> link_inv s -> s_dft_rec filt s ou start d u fv fr <> TFuel.
Proof.
  intros Hwf Hli. unfold s_dft_rec.
  pose proof (dft_rec_fuel_enough (t_nb filt s d u fv) (t_uni s ou) fr (next s) start
                (neighbors_bounded filt s d u fv Hwf Hli)) as Hne.
  rewrite (fuel_mono_dfr _ _ _ _ _ _ eq_refl Hne _ (trav_fuel_ge s)). exact Hne.
Qed.

Lemma nblen_le filt s d u fv v : wf s -> link_inv s -> nblen (t_nb filt s d u fv) v <= next s.
Proof.
  intros Hwf Hli. unfold nblen, nbo. destruct v as [x|]; [|lia].
  unfold t_nb. destruct (neighbors_pure filt s x d u fv) as [ns|e] eqn:E; [|lia].
  eapply neighbors_length_le; eauto.
Qed.

Lemma list_sum_map_le {A} (f : A -> nat) n : forall l,
  (forall x, In x l -> f x <= n) -> list_sum (map f l) <= length l * n.
Proof.
  induction l as [|a l IH]; intro H; [cbn; lia|].
  pose proof (H a (or_introl eq_refl)) as Ha. specialize (IH (fun x Hx => H x (or_intror Hx))).
  change (f a + list_sum (map f l) <= n + length l * n). lia.
Qed.

Lemma dfi_fuel_le_trav_fuel filt s d u fv start :
  wf s -> link_inv s -> dfi_fuel (t_nb filt s d u fv) (next s) start <= trav_fuel s.
Proof.
  intros Hwf Hli. unfold dfi_fuel, trav_fuel.
  pose proof (list_sum_map_le (nblen (t_nb filt s d u fv)) (next s) (Llist (next s) start)
                (fun x _ => nblen_le filt s d u fv x Hwf Hli)) as H.
  unfold Llist in H at 2. cbn [length] in H. rewrite map_length, seq_length in H. nia.
Qed.

Theorem s_dft_iter_terminates filt s ou start d u fv fr :
  wf s -> link_inv s -> s_dft_iter filt s ou start d u fv fr <> TFuel.
Proof.
  intros Hwf Hli. unfold s_dft_iter.
  pose proof (dft_iter_fuel_enough (t_nb filt s d u fv) (t_uni s ou) fr (next s) start
                (neighbors_bounded filt s d u fv Hwf Hli)) as Hne.
  rewrite (fuel_mono_dfi _ _ _ _ _ _ eq_refl Hne _ (dfi_fuel_le_trav_fuel filt s d u fv start Hwf Hli)).
  exact Hne.
Qed.

Theorem s_bfs_terminates filt s ou start m :
  wf s -> link_inv s -> s_bfs filt s ou start m <> SFuel.
Proof.
  intros Hwf Hli. unfold s_bfs. apply bfs_fuel_suffices.
  exact (s_bft_terminates filt s ou start Fwd UErr None all Hwf Hli).
Qed.

Theorem s_dfs_rec_terminates filt s ou start m :
  wf s -> link_inv s -> s_dfs_rec filt s ou start m <> SFuel.
Proof.
  intros Hwf Hli. unfold s_dfs_rec. apply dfs_rec_fuel_suffices.
  exact (s_dft_rec_terminates filt s ou start Fwd UErr None all Hwf Hli).
Qed.

Theorem s_dfs_iter_terminates filt s ou start m :
  wf s -> link_inv s -> s_dfs_iter filt s ou start m <> SFuel.
Proof.
  intros Hwf Hli. unfold s_dfs_iter. apply dfs_iter_fuel_suffices.
  exact (s_dft_iter_terminates filt s ou start Fwd UErr None all Hwf Hli).
Qed.

(* the same as a disjunction: a traversal of a heap returns a listing or raises *)
Lemma tres_cases r : r <> TFuel -> (exists out, r = TOk out) \/ (exists e, r = TErr e).
Proof. destruct r; [left|right|]; eauto. intro H; contradiction H; reflexivity. Qed.

Corollary s_total_bft filt s ou start d u fv fr : wf s -> link_inv s ->
  (exists out, s_bft filt s ou start d u fv fr = TOk out) \/ (exists e, s_bft filt s ou start d u fv fr = TErr e).
Proof. intros Hwf Hli. apply tres_cases, s_bft_terminates; assumption. Qed.
Corollary s_total_dfr filt s ou start d u fv fr : wf s -> link_inv s ->
  (exists out, s_dft_rec filt s ou start d u fv fr = TOk out) \/ (exists e, s_dft_rec filt s ou start d u fv fr = TErr e).
Proof. intros Hwf Hli. apply tres_cases, s_dft_rec_terminates; assumption. Qed.
Corollary s_total_dfi filt s ou start d u fv fr : wf s -> link_inv s ->
  (exists out, s_dft_iter filt s ou start d u fv fr = TOk out) \/ (exists e, s_dft_iter filt s ou start d u fv fr = TErr e).
Proof. intros Hwf Hli. apply tres_cases, s_dft_iter_terminates; assumption. Qed.

(* ------------------------------------------------------------------------------------------- *)
(* 4. heap-level restatements                                                                   *)
(* ------------------------------------------------------------------------------------------- *)

Theorem s_exact_bft filt s ou start d u fv out :
  wf s -> link_inv s ->
  inU (t_uni s ou) (Some start) = true -> t_uni s ou <> Some [] ->
  s_bft filt s ou start d u fv all = TOk out ->
  NoDup out /\ (exists tl, out = Some start :: tl) /\
  (forall v, In v out <-> reach (t_nb filt s d u fv) (t_uni s ou) (Some start) v).
Proof. intros _ _ Hin Hne H. exact (exact_bft _ _ _ _ _ Hin Hne H). Qed.

Theorem s_exact_dfr filt s ou start d u fv out :
  wf s -> link_inv s ->
  inU (t_uni s ou) (Some start) = true -> t_uni s ou <> Some [] ->
  s_dft_rec filt s ou start d u fv all = TOk out ->
  NoDup out /\ (exists tl, out = Some start :: tl) /\
  (forall v, In v out <-> reach (t_nb filt s d u fv) (t_uni s ou) (Some start) v).
Proof. intros _ _ Hin Hne H. exact (exact_dfr _ _ _ _ _ Hin Hne H). Qed.

Theorem s_exact_dfi filt s ou start d u fv out :
  wf s -> link_inv s ->
  inU (t_uni s ou) (Some start) = true -> t_uni s ou <> Some [] ->
  s_dft_iter filt s ou start d u fv all = TOk out ->
  NoDup out /\ (exists tl, out = Some start :: tl) /\
  (forall v, In v out <-> reach (t_nb filt s d u fv) (t_uni s ou) (Some start) v).
Proof. intros _ _ Hin Hne H. exact (exact_dfi _ _ _ _ _ Hin Hne H). Qed.

Theorem s_three_agree filt s ou start d u fv o1 o2 o3 :
  s_bft filt s ou start d u fv all = TOk o1 ->
  s_dft_rec filt s ou start d u fv all = TOk o2 ->
  s_dft_iter filt s ou start d u fv all = TOk o3 ->
  Permutation o1 o2 /\ Permutation o2 o3.
Proof. intros H1 H2 H3. exact (three_agree _ _ _ _ _ _ _ _ _ H1 H2 H3). Qed.

Theorem s_ff_result_bft filt s ou start d u fv fr :
  s_bft filt s ou start d u fv fr = tmap fr (s_bft filt s ou start d u fv all).
Proof. apply ff_result_bft. Qed.
Theorem s_ff_result_dfr filt s ou start d u fv fr :
  s_dft_rec filt s ou start d u fv fr = tmap fr (s_dft_rec filt s ou start d u fv all).
Proof. apply ff_result_dfr. Qed.
Theorem s_ff_result_dfi filt s ou start d u fv fr :
  s_dft_iter filt s ou start d u fv fr = tmap fr (s_dft_iter filt s ou start d u fv all).
Proof. apply ff_result_dfi. Qed.

Theorem s_search_first_match_bfs filt s ou start m out :
  s_bft filt s ou start Fwd UErr None all = TOk out ->
  s_bfs filt s ou start m = SOk (find m out).
Proof. intro H. apply bfs_complete. exact H. Qed.
Theorem s_search_first_match_dfr filt s ou start m out :
  s_dft_rec filt s ou start Fwd UErr None all = TOk out ->
  s_dfs_rec filt s ou start m = SOk (find m out).
Proof. intro H. apply dfs_rec_complete. exact H. Qed.
Theorem s_search_first_match_dfi filt s ou start m out :
  s_dft_iter filt s ou start Fwd UErr None all = TOk out ->
  s_dfs_iter filt s ou start m = SOk (find m out).
Proof. intro H. apply dfs_iter_complete. exact H. Qed.

(* ---- determinism: the results are a function of vlinks, lverts, kind and uverts alone ---- *)

Lemma nb_link_reads filt s s' v d u f l :
  lverts s = lverts s' -> kind s = kind s' ->
  nb_link filt s v d u f l = nb_link filt s' v d u f l.
Proof.
  intros Hl Hk. unfold nb_link, other, is_end1, is_end2, lv1, lv2, lv, kd.
  rewrite Hl, Hk. reflexivity.
Qed.

Lemma nb_loop_reads filt s s' v d u f :
  lverts s = lverts s' -> kind s = kind s' ->
  forall ls acc, nb_loop filt s v d u f ls acc = nb_loop filt s' v d u f ls acc.
Proof.
  intros Hl Hk. induction ls as [|l r IH]; intro acc; cbn; [reflexivity|].
  rewrite (nb_link_reads filt s s' v d u f l Hl Hk).
  destruct (nb_link filt s' v d u f l); auto.
Qed.

Lemma neighbors_pure_reads filt s s' v d u f :
  vlinks s = vlinks s' -> lverts s = lverts s' -> kind s = kind s' ->
  neighbors_pure filt s v d u f = neighbors_pure filt s' v d u f.
Proof.
  intros Hv Hl Hk. unfold neighbors_pure, vl. rewrite Hv. apply nb_loop_reads; assumption.
Qed.

Lemma t_uni_reads s s' ou : uverts s = uverts s' -> t_uni s ou = t_uni s' ou.
Proof. intro H. unfold t_uni, uv. rewrite H. reflexivity. Qed.

Lemma trav_fuel_reads s s' : kind s = kind s' -> trav_fuel s = trav_fuel s'.
Proof. intro H. unfold trav_fuel, next. rewrite H. reflexivity. Qed.

Section Determinism.
  Variable filt : nat -> nat -> option nat -> bool.
  Variables s s' : state.
  Hypothesis Hv : vlinks s = vlinks s'.
  Hypothesis Hl : lverts s = lverts s'.
  Hypothesis Hk : kind s = kind s'.
  Hypothesis Hu : uverts s = uverts s'.

  Theorem s_determinism_bft ou start d u fv fr :
    s_bft filt s ou start d u fv fr = s_bft filt s' ou start d u fv fr.
  Proof.
    unfold s_bft. rewrite (t_uni_reads s s' ou Hu), (trav_fuel_reads s s' Hk).
    apply bft_ext. intro v. apply neighbors_pure_reads; assumption.
  Qed.
  Theorem s_determinism_dfr ou start d u fv fr :
    s_dft_rec filt s ou start d u fv fr = s_dft_rec filt s' ou start d u fv fr.
  Proof.
    unfold s_dft_rec. rewrite (t_uni_reads s s' ou Hu), (trav_fuel_reads s s' Hk).
    apply dft_rec_ext. intro v. apply neighbors_pure_reads; assumption.
  Qed.
  Theorem s_determinism_dfi ou start d u fv fr :
    s_dft_iter filt s ou start d u fv fr = s_dft_iter filt s' ou start d u fv fr.
  Proof.
    unfold s_dft_iter. rewrite (t_uni_reads s s' ou Hu), (trav_fuel_reads s s' Hk).
    apply dft_iter_ext. intro v. apply neighbors_pure_reads; assumption.
  Qed.
End Determinism.

Theorem s_determinism filt s s' ou start d u fv fr :
  vlinks s = vlinks s' -> lverts s = lverts s' -> kind s = kind s' -> uverts s = uverts s' ->
  s_bft filt s ou start d u fv fr = s_bft filt s' ou start d u fv fr /\
  s_dft_rec filt s ou start d u fv fr = s_dft_rec filt s' ou start d u fv fr /\
  s_dft_iter filt s ou start d u fv fr = s_dft_iter filt s' ou start d u fv fr.
Proof.
  intros Hv Hl Hk Hu. split; [|split].
  - apply s_determinism_bft; assumption.
  - apply s_determinism_dfr; assumption.
  - apply s_determinism_dfi; assumption.
Qed.

Print Assumptions neighbors_bounded.
Print Assumptions neighbors_length_le.
Print Assumptions s_bft_terminates.
Print Assumptions s_dft_rec_terminates.
Print Assumptions s_dft_iter_terminates.
Print Assumptions s_bfs_terminates.
Print Assumptions s_dfs_rec_terminates.
Print Assumptions s_dfs_iter_terminates.
Print Assumptions s_total_bft.
Print Assumptions s_total_dfr.
Print Assumptions s_total_dfi.
Print Assumptions s_exact_bft.
Print Assumptions s_exact_dfr.
Print Assumptions s_exact_dfi.
Print Assumptions s_three_agree.
Print Assumptions s_ff_result_bft.
Print Assumptions s_ff_result_dfr.
Print Assumptions s_ff_result_dfi.
Print Assumptions s_search_first_match_bfs.
Print Assumptions s_search_first_match_dfr.
Print Assumptions s_search_first_match_dfi.
Print Assumptions s_determinism_bft.
Print Assumptions s_determinism_dfr.
Print Assumptions s_determinism_dfi.
Print Assumptions s_determinism.
