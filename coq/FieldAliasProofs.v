(* FieldAliasProofs.v — proofs about the object-identity model of container fields (FieldAlias.v, C12).

   Proved here (closed under the global context, stdlib only):
   - fsim                       : simulation between the copying implementation (cells, locations) and the
                                  value-only specification: same client heap, each field location is allocated,
                                  NOT owned by the client, named by one field only, and holds the spec's value.
   - fsim_init, fsim_step       : it holds initially and every operation preserves it, handing out the spec's answer.
   - field_answers_refine_spec  : fanswers true true finit ops = sanswers sinit ops, for every history.
   - field_locations_never_owned: no list the library keeps is ever reachable by the client.
   - spec_client_edit_frame     : in the specification a client edit changes no field and answers nothing.
   - refuted_without_copy_in / refuted_without_copy_out : each copy is necessary. *)
From EG Require Import Base Lemmas2 FieldAlias.

Definition fsim (s : fstate) (ss : sstate) : Prop :=
  length (fcells s) = length (sclient ss) /\
  fowned s = sowned ss /\
  (forall c, In c (fowned s) -> c < length (fcells s) /\ get [] c (fcells s) = get [] c (sclient ss)) /\
  length (fields s) = length (sfields ss) /\
  (forall f c, nth_error (fields s) f = Some c ->
     c < length (fcells s) /\ ~ In c (fowned s) /\ nth_error (sfields ss) f = Some (get [] c (fcells s))) /\
  (forall f g c, nth_error (fields s) f = Some c -> nth_error (fields s) g = Some c -> f = g).

Lemma fsim_init : fsim finit sinit.
Proof.
  unfold fsim; cbn.
  split; [reflexivity|]. split; [reflexivity|]. split; [intros c []|]. split; [reflexivity|].
  split; [intros [|n] c Hn; discriminate | intros [|n] g c Hn; discriminate].
Qed.

(* what fanswers records for one step *)
Definition handed (o : fop) (r : fstate * option nat) : option (list nat) :=
  match o, snd r with
  | FRead _, Some c => Some (get [] c (fcells (fst r)))
  | _, _ => None
  end.

Lemma nth_error_app_last {A} (l : list A) (x : A) f c :
  nth_error (l ++ [x]) f = Some c -> (f < length l /\ nth_error l f = Some c) \/ (f = length l /\ c = x).
Proof.
  intro H. destruct (Nat.lt_ge_cases f (length l)) as [Hl|Hl].
  - left. split; auto. now rewrite nth_error_app1 in H.
  - right. rewrite nth_error_app2 in H by lia.
    destruct (f - length l) as [|k] eqn:E; cbn in H.
    + split; [lia | congruence].
    + destruct k; discriminate.
Qed.

Lemma fsim_alloc_owned s ss v :
  fsim s ss ->
  fsim {| fcells := fcells s ++ [v]; fields := fields s; fowned := length (fcells s) :: fowned s |}
       {| sclient := sclient ss ++ [v]; sowned := length (sclient ss) :: sowned ss; sfields := sfields ss |}.
Proof.
  intros (HL & HO & HOV & HFL & HFV & HFI).
  unfold fsim; cbn [fcells fields fowned sclient sowned sfields].
  rewrite !app_length; cbn [length].
  split; [lia|]. split; [now rewrite HL, HO|].
  split.
  { intros c [Hc|Hc].
    - subst c. split; [lia|]. rewrite get_app_new. rewrite HL. now rewrite get_app_new.
    - destruct (HOV c Hc) as [Hb Hv]. split; [lia|].
      rewrite get_app_old by lia. rewrite get_app_old by lia. exact Hv. }
  split; [exact HFL|].
  split; [|exact HFI].
  intros f c Hf. destruct (HFV f c Hf) as (Hb & Hn & Hv).
  split; [lia|]. split.
  - intros [E|E]; [lia | contradiction].
  - rewrite get_app_old by lia. exact Hv.
Qed.

Lemma fsim_newfield s ss loc :
  fsim s ss -> In loc (fowned s) ->
  fsim {| fcells := fcells s ++ [get [] loc (fcells s)]; fields := fields s ++ [length (fcells s)]; fowned := fowned s |}
       {| sclient := sclient ss ++ [[]]; sowned := sowned ss; sfields := sfields ss ++ [get [] loc (sclient ss)] |}.
Proof.
  intros (HL & HO & HOV & HFL & HFV & HFI) Hloc.
  unfold fsim; cbn [fcells fields fowned sclient sowned sfields].
  rewrite !app_length; cbn [length].
  split; [lia|]. split; [exact HO|].
  split.
  { intros c Hc. destruct (HOV c Hc) as [Hb Hv]. split; [lia|].
    rewrite get_app_old by lia. rewrite get_app_old by lia. exact Hv. }
  split; [lia|].
  split.
  { intros f c Hf. apply nth_error_app_last in Hf. destruct Hf as [[Hlt Hf]|[Hf Hc]].
    - destruct (HFV f c Hf) as (Hb & Hn & Hv). split; [lia|]. split; [exact Hn|].
      rewrite get_app_old by lia. rewrite nth_error_app1 by lia. exact Hv.
    - subst c f. split; [lia|]. split.
      + intro Hin. destruct (HOV _ Hin) as [Hb _]. lia.
      + rewrite get_app_new. rewrite HFL. rewrite nth_error_app2 by lia. rewrite Nat.sub_diag. cbn.
        destruct (HOV loc Hloc) as [_ Hv]. now rewrite Hv. }
  intros f g c Hf Hg.
  apply nth_error_app_last in Hf. apply nth_error_app_last in Hg.
  destruct Hf as [[Hfl Hf]|[Hf Hc]], Hg as [[Hgl Hg]|[Hg Hc']].
  - eapply HFI; eauto.
  - subst c. destruct (HFV f _ Hf) as (Hb & _). lia.
  - subst c. destruct (HFV g _ Hg) as (Hb & _). lia.
  - lia.
Qed.

(* the library overwrites the list it keeps for field f *)
Lemma fsim_libwrite s ss f c v :
  fsim s ss -> nth_error (fields s) f = Some c ->
  fsim (fwrite s c v) {| sclient := sclient ss; sowned := sowned ss; sfields := setf f v (sfields ss) |}.
Proof.
  intros (HL & HO & HOV & HFL & HFV & HFI) Hf.
  destruct (HFV f c Hf) as (Hcb & Hcn & Hcv).
  assert (Hfl : f < length (sfields ss)) by (apply nth_error_Some; congruence).
  unfold fsim, fwrite, setf; cbn [fcells fields fowned sclient sowned sfields].
  apply Nat.ltb_lt in Hfl as Hfl'. rewrite Hfl'.
  rewrite !set_length.
  split; [exact HL|]. split; [exact HO|].
  split.
  { intros c' Hc'. destruct (HOV c' Hc') as [Hb Hv]. split; [exact Hb|].
    rewrite get_set_other; [exact Hv|]. intro E; subst c'. contradiction. }
  split; [exact HFL|].
  split; [|exact HFI].
  intros f' c' Hf'. destruct (HFV f' c' Hf') as (Hb & Hn & Hv).
  split; [exact Hb|]. split; [exact Hn|].
  destruct (Nat.eq_dec f' f) as [E|E].
  - subst f'. assert (c' = c) by congruence. subst c'.
    rewrite get_set_same by exact Hb. now apply nth_error_set_same.
  - assert (c' <> c) by (intro E'; subst c'; apply E; eapply HFI; eauto).
    rewrite get_set_other by congruence. rewrite nth_error_set_other by congruence. exact Hv.
Qed.

(* the client overwrites a list it owns *)
Lemma fsim_clientwrite s ss loc xs :
  fsim s ss -> In loc (fowned s) ->
  fsim (fwrite s loc xs) {| sclient := set loc xs (sclient ss); sowned := sowned ss; sfields := sfields ss |}.
Proof.
  intros (HL & HO & HOV & HFL & HFV & HFI) Hloc.
  destruct (HOV loc Hloc) as [Hlb _].
  unfold fsim, fwrite; cbn [fcells fields fowned sclient sowned sfields].
  rewrite !set_length.
  split; [exact HL|]. split; [exact HO|].
  split.
  { intros c Hc. destruct (HOV c Hc) as [Hb Hv]. split; [exact Hb|].
    destruct (Nat.eq_dec c loc) as [E|E].
    - subst c. rewrite get_set_same by exact Hb. rewrite get_set_same by lia. reflexivity.
    - rewrite !get_set_other by congruence. exact Hv. }
  split; [exact HFL|].
  split; [|exact HFI].
  intros f c Hf. destruct (HFV f c Hf) as (Hb & Hn & Hv).
  split; [exact Hb|]. split; [exact Hn|].
  rewrite get_set_other; [exact Hv|]. intro E; subst c. contradiction.
Qed.

Lemma fsim_fieldloc s ss f :
  fsim s ss ->
  match fieldloc s f with
  | Some c => nth_error (sfields ss) f = Some (get [] c (fcells s))
  | None => nth_error (sfields ss) f = None
  end.
Proof.
  intros (HL & HO & HOV & HFL & HFV & HFI). unfold fieldloc.
  destruct (nth_error (fields s) f) as [c|] eqn:E.
  - now destruct (HFV f c E) as (_ & _ & Hv).
  - apply nth_error_None in E. apply nth_error_None. lia.
Qed.

Lemma fsim_step s ss o :
  fsim s ss ->
  fsim (fst (fstep true true s o)) (fst (sstep ss o)) /\
  handed o (fstep true true s o) = snd (sstep ss o).
Proof.
  intro H. pose proof H as (HL & HO & HOV & HFL & HFV & HFI).
  destruct o as [xs | loc | f | f x | f x | loc xs]; unfold fstep, sstep, handed.
  - (* FAlloc *)
    split; [|reflexivity]. exact (fsim_alloc_owned s ss xs H).
  - (* FNew *)
    assert (EMS : memn loc (sowned ss) = memn loc (fowned s)) by now rewrite HO.
    rewrite EMS. destruct (memn loc (fowned s)) eqn:EM.
    + apply memn_In in EM. split; [|reflexivity]. exact (fsim_newfield s ss loc H EM).
    + split; [exact H | reflexivity].
  - (* FRead *)
    pose proof (fsim_fieldloc s ss f H) as HF.
    destruct (fieldloc s f) as [c|] eqn:EF; rewrite HF.
    + split.
      * exact (fsim_alloc_owned s ss (get [] c (fcells s)) H).
      * unfold falloc, fown; cbn [fst snd fcells]. now rewrite get_app_new.
    + split; [exact H | reflexivity].
  - (* FLibAdd *)
    pose proof (fsim_fieldloc s ss f H) as HF.
    destruct (fieldloc s f) as [c|] eqn:EF; rewrite HF.
    + split; [|reflexivity]. exact (fsim_libwrite s ss f c _ H EF).
    + split; [exact H | reflexivity].
  - (* FLibDel *)
    pose proof (fsim_fieldloc s ss f H) as HF.
    destruct (fieldloc s f) as [c|] eqn:EF; rewrite HF.
    + split; [|reflexivity]. exact (fsim_libwrite s ss f c _ H EF).
    + split; [exact H | reflexivity].
  - (* FClient *)
    assert (EMS : memn loc (sowned ss) = memn loc (fowned s)) by now rewrite HO.
    rewrite EMS. destruct (memn loc (fowned s)) eqn:EM.
    + apply memn_In in EM. split; [|reflexivity]. exact (fsim_clientwrite s ss loc xs H EM).
    + split; [exact H | reflexivity].
Qed.

Lemma fanswers_unfold s o r :
  fanswers true true s (o :: r) = handed o (fstep true true s o) :: fanswers true true (fst (fstep true true s o)) r.
Proof.
  cbn [fanswers]. unfold handed. destruct (fstep true true s o) as [s' h]; cbn [fst snd].
  destruct o; try reflexivity. destruct h; reflexivity.
Qed.

Lemma fanswers_sim ops : forall s ss, fsim s ss -> fanswers true true s ops = sanswers ss ops.
Proof.
  induction ops as [|o r IH]; intros s ss H; [reflexivity|].
  rewrite fanswers_unfold. cbn [sanswers].
  destruct (fsim_step s ss o H) as [H' HA].
  destruct (sstep ss o) as [ss' a] eqn:ES; cbn [fst snd] in *.
  rewrite HA. f_equal. now apply IH.
Qed.

Theorem field_answers_refine_spec : forall ops, fanswers true true finit ops = sanswers sinit ops.
Proof. intro ops. apply fanswers_sim. exact fsim_init. Qed.

Lemma frun_sim ops : forall s ss, fsim s ss -> fsim (frun true true s ops) (srun ss ops).
Proof.
  induction ops as [|o r IH]; intros s ss H; [exact H|].
  cbn [frun srun]. apply IH. now destruct (fsim_step s ss o H).
Qed.

Theorem field_locations_never_owned :
  forall ops c, In c (fields (frun true true finit ops)) -> ~ In c (fowned (frun true true finit ops)).
Proof.
  intros ops c Hin. pose proof (frun_sim ops finit sinit fsim_init) as (_ & _ & _ & _ & HFV & _).
  apply In_nth_error in Hin. destruct Hin as [f Hf]. now destruct (HFV f c Hf) as (_ & Hn & _).
Qed.

Lemma nth_error_ext_eq {A} (l l' : list A) : (forall n, nth_error l n = nth_error l' n) -> l = l'.
Proof.
  revert l'; induction l as [|x l IH]; intros [|y l'] H; auto.
  - specialize (H 0); discriminate.
  - specialize (H 0); discriminate.
  - pose proof (H 0) as H0. cbn in H0. injection H0 as ->. f_equal. apply IH. intro n. exact (H (S n)).
Qed.

(* the field VALUES after any history are those of the specification *)
Theorem field_values_refine_spec :
  forall ops, map (fun c => get [] c (fcells (frun true true finit ops))) (fields (frun true true finit ops))
              = sfields (srun sinit ops).
Proof.
  intro ops. pose proof (frun_sim ops finit sinit fsim_init) as (_ & _ & _ & HFL & HFV & _).
  apply nth_error_ext_eq. intro f. rewrite nth_error_map.
  destruct (nth_error (fields (frun true true finit ops)) f) as [c|] eqn:E; cbn.
  - destruct (HFV f c E) as (_ & _ & Hv). now rewrite Hv.
  - symmetry. apply nth_error_None. apply nth_error_None in E. lia.
Qed.

Theorem spec_client_edit_frame :
  forall ss loc xs, sfields (fst (sstep ss (FClient loc xs))) = sfields ss /\ snd (sstep ss (FClient loc xs)) = None.
Proof. intros ss loc xs. cbn. destruct (memn loc (sowned ss)); split; reflexivity. Qed.

Theorem refuted_without_copy_in : exists ops, fanswers false true finit ops <> sanswers sinit ops.
Proof. exists [FAlloc [1]; FNew 0; FClient 0 [9]; FRead 0]. vm_compute. discriminate. Qed.

Theorem refuted_without_copy_out : exists ops, fanswers true false finit ops <> sanswers sinit ops.
Proof. exists [FAlloc [1]; FNew 0; FRead 0; FClient 1 [9]; FRead 0]. vm_compute. discriminate. Qed.

Example field_alias_example :
  fanswers true true finit [FAlloc [1]; FNew 0; FClient 0 [9]; FRead 0; FLibAdd 0 5; FRead 0; FClient 2 [7]; FRead 0;
                            FLibDel 0 1; FRead 0]
  = [None; None; None; Some [1]; None; Some [1; 5]; None; Some [1; 5]; None; Some [5]].
Proof. vm_compute. reflexivity. Qed.
