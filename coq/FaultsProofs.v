(* FaultsProofs.v — C13: neighbors() when the user's filter callback may raise (model: Faults.v).

   What is proved here (all closed under the global context, stdlib only):

   1. faulty_total_agrees      a callback that never raises makes the faulty model the ordinary one
        (nb_decide_irrelevant: on the rows where `consults` is false the verdict does not matter;
         nb_link_f_total / nb_loop_f_total; neighbors_cf_total_agrees: the memoised versions agree
         too, state included; Coh_f_total: the two coherence notions coincide).
   2. raising_filter_changes_nothing / raising_lookup_changes_nothing / abnormal_end_changes_nothing
        THE C13 CORE: if the call ends with the callback's exception (F3Boom) or with the loop's own
        exception (F3Err e), the whole state — memo included — is exactly the state before the call.
        (boom_is_pure_boom / err_is_pure_err: an abnormal end is never served from the memo.)
   3. faulty_query_frame       a query never changes the observable graph nor the flag, whatever
        the callback does (neighbors_cf_cases: the state is unchanged or one memo slot was set).
   4. Coh_f_query              a query keeps memo coherence, with a raising callback too;
      faulty_hit_is_recomputation  a normal answer — hit or miss — is what recomputation returns.
        (neighbors_pure_f_footprint: the loop reads only vl v and lv/kd of v's links.)
   5. retry_after_fault_gives_normal_answer   repeating the call after a fault with a well-behaved
        callback gives exactly the answer (and state) of a call that never saw the fault;
      fault_leaves_no_new_entry / fault_leaves_cache  after a fault the memo holds no entry that
        was not there before (it is the same memo); retry_after_fault_same_callback.
   6. boom_iff_some_invocation_raises   fault-point completeness: `invocations` lists the
        (link, other end) pairs on which the callback is invoked, in order, up to and including
        the first raising one; the call ends in F3Boom iff the callback raises on one of them.
        (invocations_only_last_raises: every invocation but the last returned normally, so "a
         fault at the k-th invocation" is the argument-based fault on the k-th listed pair.)
   7. fault_example            non-vacuity on a heap built by Struct.run: with caching on, a filter
        raising on one link gives F3Boom and leaves the state untouched (after a first link was
        already accepted); with a filter that does not raise the second call is a memo hit. *)
From EG Require Import Base Lemmas State StateLemmas Nbrs NbrsDecide NbrsLink Struct StateRw Cache CacheProofs Faults.

(* ====================================================================================== *)
(* 1. a callback that never raises                                                        *)
(* ====================================================================================== *)
Lemma nb_decide_irrelevant d u a b c e fk fk' :
  consults d u a b c e = false -> nb_decide d u a b c e fk = nb_decide d u a b c e fk'.
Proof. destruct d, u, a, b, c, e; cbn; intro H; try discriminate H; reflexivity. Qed.

Definition res3_of (r : nres) : fres3 := match r with NOk l => F3Ok l | NErr e => F3Err e end.

Section Total.
  Variable filt : nat -> nat -> option nat -> bool.
  Variable filtf : nat -> nat -> option nat -> option bool.
  Hypothesis total : forall fid l o, filtf fid l o = Some (filt fid l o).

  Lemma nb_link_f_total s v d u f l : nb_link_f filtf s v d u f l = L3 (nb_link filt s v d u f l).
  Proof.
    rewrite nb_link_is_decide. unfold nb_link_f, nb_link_via.
    destruct (other s l (Some v)) as [|v2]; [reflexivity|]. cbv zeta.
    destruct (consults d u (is_undirected (kd s l)) (is_directed (kd s l)) (is_end1 s l v) (is_end2 s l v)) eqn:C.
    - destruct f as [fid|]; cbn [fok]; [rewrite total|]; reflexivity.
    - f_equal. f_equal. apply nb_decide_irrelevant. exact C.
  Qed.

  Lemma nb_loop_f_total s v d u f : forall ls acc,
    nb_loop_f filtf s v d u f ls acc = res3_of (nb_loop filt s v d u f ls acc).
  Proof.
    induction ls as [|l r IH]; intro acc; cbn [nb_loop_f nb_loop]; [reflexivity|].
    rewrite nb_link_f_total. destruct (nb_link filt s v d u f l); auto.
  Qed.

  Theorem faulty_total_agrees s v d u f :
    neighbors_pure_f filtf s v d u f
    = match neighbors_pure filt s v d u f with NOk l => F3Ok l | NErr e => F3Err e end.
  Proof. unfold neighbors_pure_f, neighbors_pure. apply nb_loop_f_total. Qed.

  (* the memoised calls agree as well: same answer, same state *)
  Theorem neighbors_cf_total_agrees s v d u f :
    neighbors_cf filtf s v d u f
    = (fst (neighbors_c filt s v d u f), res3_of (snd (neighbors_c filt s v d u f))).
  Proof.
    unfold neighbors_cf, neighbors_c. rewrite faulty_total_agrees.
    destruct (caching s); [|reflexivity].
    destruct (ca_lookup (d, u, f) (ca s v)); [reflexivity|].
    destruct (neighbors_pure filt s v d u f); reflexivity.
  Qed.

  Theorem Coh_f_total s : Coh_f filtf s <-> Coh filt s.
  Proof.
    unfold Coh_f, Coh. split; intros C v k ans E; specialize (C v k ans E);
      rewrite faulty_total_agrees in *;
      destruct (neighbors_pure filt s v (fst (fst k)) (snd (fst k)) (snd k)); congruence.
  Qed.
End Total.

(* ====================================================================================== *)
(* 2. THE C13 CORE: an abnormal end leaves the whole state as it was                      *)
(* ====================================================================================== *)
Section Faulty.
  Variable filtf : nat -> nat -> option nat -> option bool.

  (* the only two things a call can do to the state *)
  Lemma neighbors_cf_cases s v d u f s' r : neighbors_cf filtf s v d u f = (s', r) ->
    s' = s \/
    exists nbs, caching s = true /\ ca_lookup (d, u, f) (ca s v) = None /\
                neighbors_pure_f filtf s v d u f = F3Ok nbs /\ r = F3Ok nbs /\
                s' = set_ca s v (ca_store (d, u, f) nbs (ca s v)).
  Proof.
    unfold neighbors_cf. intro H.
    destruct (caching s) eqn:EC; [|inversion H; now left].
    destruct (ca_lookup (d, u, f) (ca s v)) as [ans|] eqn:EL; [inversion H; now left|].
    destruct (neighbors_pure_f filtf s v d u f) as [nbs|e|] eqn:EN; inversion H; subst; [|now left|now left].
    right. exists nbs. repeat split; reflexivity.
  Qed.

  Definition abnormal (r : fres3) : Prop := match r with F3Ok _ => False | _ => True end.

  Theorem abnormal_end_changes_nothing s v d u f s' r :
    neighbors_cf filtf s v d u f = (s', r) -> abnormal r -> s' = s.
  Proof.
    intros H A. destruct (neighbors_cf_cases _ _ _ _ _ _ _ H) as [E|(nbs & _ & _ & _ & -> & _)]; [exact E|].
    destruct A.
  Qed.

  Theorem raising_filter_changes_nothing s v d u f s' :
    neighbors_cf filtf s v d u f = (s', F3Boom) -> s' = s.
  Proof. intro H. exact (abnormal_end_changes_nothing _ _ _ _ _ _ _ H I). Qed.

  Theorem raising_lookup_changes_nothing s v d u f s' e :
    neighbors_cf filtf s v d u f = (s', F3Err e) -> s' = s.
  Proof. intro H. exact (abnormal_end_changes_nothing _ _ _ _ _ _ _ H I). Qed.

  (* an abnormal end never comes from the memo: it is the loop's own *)
  Lemma abnormal_is_pure s v d u f s' r :
    neighbors_cf filtf s v d u f = (s', r) -> abnormal r -> neighbors_pure_f filtf s v d u f = r.
  Proof.
    unfold neighbors_cf. intros H A.
    destruct (caching s); [|inversion H; reflexivity].
    destruct (ca_lookup (d, u, f) (ca s v)); [inversion H; subst; destruct A|].
    destruct (neighbors_pure_f filtf s v d u f); inversion H; subst; [destruct A|reflexivity|reflexivity].
  Qed.
  Corollary boom_is_pure_boom s v d u f s' :
    neighbors_cf filtf s v d u f = (s', F3Boom) -> neighbors_pure_f filtf s v d u f = F3Boom.
  Proof. intro H. exact (abnormal_is_pure _ _ _ _ _ _ _ H I). Qed.
  Corollary err_is_pure_err s v d u f s' e :
    neighbors_cf filtf s v d u f = (s', F3Err e) -> neighbors_pure_f filtf s v d u f = F3Err e.
  Proof. intro H. exact (abnormal_is_pure _ _ _ _ _ _ _ H I). Qed.

  (* ==================================================================================== *)
  (* 3. a query never changes the observable graph                                        *)
  (* ==================================================================================== *)
  Theorem faulty_query_frame s v d u f s' r : neighbors_cf filtf s v d u f = (s', r) ->
    vlinks s' = vlinks s /\ lverts s' = lverts s /\ vunis s' = vunis s /\ uverts s' = uverts s /\
    ulaws s' = ulaws s /\ lapp s' = lapp s /\ kind s' = kind s /\ caching s' = caching s.
  Proof.
    intro H. destruct (neighbors_cf_cases _ _ _ _ _ _ _ H) as [->|(nbs & _ & _ & _ & _ & ->)];
      repeat split; reflexivity.
  Qed.

  Corollary faulty_query_same_obs s v d u f s' r :
    neighbors_cf filtf s v d u f = (s', r) -> same_obs s' s.
  Proof. intro H. apply faulty_query_frame in H. unfold same_obs. tauto. Qed.

  Corollary faulty_query_wf s v d u f s' r :
    neighbors_cf filtf s v d u f = (s', r) -> wf s -> wf s'.
  Proof.
    intros H W. destruct (neighbors_cf_cases _ _ _ _ _ _ _ H) as [->|(nbs & _ & _ & _ & _ & ->)];
      auto with st.
  Qed.

  (* ==================================================================================== *)
  (* 4. coherence of the memo under queries with a raising callback                       *)
  (* ==================================================================================== *)
  Lemma nb_link_f_footprint s s' v d u f l :
    lv s' l = lv s l -> kd s' l = kd s l -> nb_link_f filtf s' v d u f l = nb_link_f filtf s v d u f l.
  Proof.
    intros Hl Hk. unfold nb_link_f, other, is_end1, is_end2, lv1, lv2. rewrite Hl, Hk. reflexivity.
  Qed.

  Lemma nb_loop_f_footprint s s' v d u f : forall ls,
    (forall l, In l ls -> lv s' l = lv s l /\ kd s' l = kd s l) ->
    forall acc, nb_loop_f filtf s' v d u f ls acc = nb_loop_f filtf s v d u f ls acc.
  Proof.
    induction ls as [|l r IH]; intros H acc; cbn [nb_loop_f]; [reflexivity|].
    destruct (H l (or_introl eq_refl)) as [Hl Hk].
    rewrite (nb_link_f_footprint s s' v d u f l Hl Hk).
    assert (Hr : forall k, In k r -> lv s' k = lv s k /\ kd s' k = kd s k) by (intros k Hk'; apply H; now right).
    destruct (nb_link_f filtf s v d u f l) as [[| |]|]; auto.
  Qed.

  Theorem neighbors_pure_f_footprint s s' v :
    vl s' v = vl s v ->
    (forall l, In l (vl s v) -> lv s' l = lv s l /\ kd s' l = kd s l) ->
    forall d u f, neighbors_pure_f filtf s' v d u f = neighbors_pure_f filtf s v d u f.
  Proof.
    intros Hv H d u f. unfold neighbors_pure_f. rewrite Hv. now apply nb_loop_f_footprint.
  Qed.

  Lemma neighbors_pure_f_set_ca s w x v d u f :
    neighbors_pure_f filtf (set_ca s w x) v d u f = neighbors_pure_f filtf s v d u f.
  Proof. apply neighbors_pure_f_footprint; [reflexivity|]. intros; split; reflexivity. Qed.

  Theorem Coh_f_query s v d u f : wf s -> v < next s -> Coh_f filtf s ->
    Coh_f filtf (fst (neighbors_cf filtf s v d u f)).
  Proof.
    intros W Hv C. destruct (neighbors_cf filtf s v d u f) as [s' r] eqn:H. cbn [fst].
    destruct (neighbors_cf_cases _ _ _ _ _ _ _ H) as [->|(nbs & _ & EL & EN & _ & ->)]; [exact C|].
    intros w k ans HL. rewrite neighbors_pure_f_set_ca.
    destruct (Nat.eq_dec w v) as [->|N].
    - rewrite ca_set_ca_same in HL by auto.
      destruct (ckey_dec k (d, u, f)) as [->|Nk].
      + rewrite ca_lookup_store_same in HL. inversion HL; subst. exact EN.
      + rewrite ca_lookup_store_other in HL by exact Nk. now apply C.
    - rewrite ca_set_ca_other in HL by congruence. now apply C.
  Qed.

  Theorem faulty_hit_is_recomputation s v d u f s' ans : Coh_f filtf s ->
    neighbors_cf filtf s v d u f = (s', F3Ok ans) -> neighbors_pure_f filtf s v d u f = F3Ok ans.
  Proof.
    intros C H. unfold neighbors_cf in H.
    destruct (caching s); [|inversion H; reflexivity].
    destruct (ca_lookup (d, u, f) (ca s v)) as [a|] eqn:EL.
    - inversion H; subst. exact (C v (d, u, f) ans EL).
    - destruct (neighbors_pure_f filtf s v d u f); inversion H; reflexivity.
  Qed.

  (* whatever the outcome, under coherence the call answers as recomputation does *)
  Corollary faulty_answer_is_recomputation s v d u f s' r : Coh_f filtf s ->
    neighbors_cf filtf s v d u f = (s', r) -> neighbors_pure_f filtf s v d u f = r.
  Proof.
    intros C H. destruct r as [ans|e|].
    - exact (faulty_hit_is_recomputation _ _ _ _ _ _ _ C H).
    - exact (err_is_pure_err _ _ _ _ _ _ _ H).
    - exact (boom_is_pure_boom _ _ _ _ _ _ H).
  Qed.

  (* ==================================================================================== *)
  (* 5. retry after a fault                                                               *)
  (* ==================================================================================== *)
  Theorem retry_after_fault_gives_normal_answer (filt : nat -> nat -> option nat -> bool) s v d u f s' :
    neighbors_cf filtf s v d u f = (s', F3Boom) ->
    neighbors_c filt s' v d u f = neighbors_c filt s v d u f.
  Proof. intro H. now rewrite (raising_filter_changes_nothing _ _ _ _ _ _ H). Qed.

  (* the same with any other (possibly raising) callback table, any vertex, any arguments *)
  Theorem retry_after_fault_same_callback (filtf2 : nat -> nat -> option nat -> option bool)
          s v d u f s' v2 d2 u2 f2 :
    neighbors_cf filtf s v d u f = (s', F3Boom) ->
    neighbors_cf filtf2 s' v2 d2 u2 f2 = neighbors_cf filtf2 s v2 d2 u2 f2.
  Proof. intro H. now rewrite (raising_filter_changes_nothing _ _ _ _ _ _ H). Qed.

  (* nothing was left behind: the memo after the fault is the memo before it; in particular it
     holds no entry, for any vertex and any key, that was not there before *)
  Theorem fault_leaves_cache s v d u f s' r :
    neighbors_cf filtf s v d u f = (s', r) -> abnormal r -> cache s' = cache s.
  Proof. intros H A. now rewrite (abnormal_end_changes_nothing _ _ _ _ _ _ _ H A). Qed.

  Theorem fault_leaves_no_new_entry s v d u f s' :
    neighbors_cf filtf s v d u f = (s', F3Boom) ->
    forall w k ans, ca_lookup k (ca s' w) = Some ans -> ca_lookup k (ca s w) = Some ans.
  Proof. intro H. rewrite (raising_filter_changes_nothing _ _ _ _ _ _ H). auto. Qed.

  (* in particular no partial result for the faulting call's own key *)
  Corollary fault_stores_nothing_for_its_key s v d u f s' :
    neighbors_cf filtf s v d u f = (s', F3Boom) -> caching s = true ->
    ca_lookup (d, u, f) (ca s' v) = None.
  Proof.
    intros H EC. rewrite (raising_filter_changes_nothing _ _ _ _ _ _ H).
    unfold neighbors_cf in H. rewrite EC in H.
    destruct (ca_lookup (d, u, f) (ca s v)); [inversion H|reflexivity].
  Qed.

  (* ==================================================================================== *)
  (* 6. fault-point completeness                                                          *)
  (* ==================================================================================== *)
  (* the invocation (if any) made while processing link l *)
  Definition called (s : state) (v : nat) (d : dirn) (u : unk) (f : option nat) (l : nat) : list (nat * option nat) :=
    match other s l (Some v), f with
    | OVal v2, Some _ =>
        if consults d u (is_undirected (kd s l)) (is_directed (kd s l)) (is_end1 s l v) (is_end2 s l v)
        then [(l, v2)] else []
    | _, _ => []
    end.
  Fixpoint invocations_loop (s : state) (v : nat) (d : dirn) (u : unk) (f : option nat) (ls : list nat)
    : list (nat * option nat) :=
    match ls with
    | [] => []
    | l :: r => match nb_link_f filtf s v d u f l with
                | L3Boom => called s v d u f l               (* the raising invocation is the last *)
                | L3 (LRaise _) => called s v d u f l        (* the loop ends with its own exception *)
                | L3 _ => called s v d u f l ++ invocations_loop s v d u f r
                end
    end.
  Definition invocations (s : state) (v : nat) (d : dirn) (u : unk) (f : option nat) : list (nat * option nat) :=
    invocations_loop s v d u f (vl s v).

  Lemma boom_called s v d u f l : nb_link_f filtf s v d u f l = L3Boom ->
    exists o fid, f = Some fid /\ called s v d u f l = [(l, o)] /\ filtf fid l o = None.
  Proof.
    unfold nb_link_f, called. destruct (other s l (Some v)) as [|v2]; [discriminate|]. cbv zeta.
    destruct (consults d u (is_undirected (kd s l)) (is_directed (kd s l)) (is_end1 s l v) (is_end2 s l v));
      [|discriminate].
    destruct f as [fid|]; [|discriminate].
    destruct (filtf fid l v2) eqn:E; [discriminate|]. intros _. exists v2, fid. auto.
  Qed.

  Lemma called_raises s v d u fid l l0 o : In (l, o) (called s v d u (Some fid) l0) ->
    filtf fid l o = None -> nb_link_f filtf s v d u (Some fid) l0 = L3Boom.
  Proof.
    unfold nb_link_f, called. destruct (other s l0 (Some v)) as [|v2]; [intros []|]. cbv zeta.
    destruct (consults d u (is_undirected (kd s l0)) (is_directed (kd s l0)) (is_end1 s l0 v) (is_end2 s l0 v));
      [|intros []].
    intros [E|[]] HN. inversion E; subst. rewrite HN. reflexivity.
  Qed.

  Lemma called_normal s v d u fid l l0 o a : In (l, o) (called s v d u (Some fid) l0) ->
    nb_link_f filtf s v d u (Some fid) l0 = L3 a -> exists b, filtf fid l o = Some b.
  Proof.
    intros HI HL. destruct (filtf fid l o) as [b|] eqn:E; [now exists b|].
    rewrite (called_raises _ _ _ _ _ _ _ _ HI E) in HL. discriminate.
  Qed.

  Lemma boom_loop_iff s v d u f : forall ls acc,
    nb_loop_f filtf s v d u f ls acc = F3Boom <->
    exists l o fid, f = Some fid /\ In (l, o) (invocations_loop s v d u f ls) /\ filtf fid l o = None.
  Proof.
    induction ls as [|l0 r IH]; intro acc; cbn [nb_loop_f invocations_loop].
    - split; [discriminate|]. intros (l & o & fid & _ & [] & _).
    - destruct (nb_link_f filtf s v d u f l0) as [a|] eqn:EL.
      + assert (NC : forall l o fid, f = Some fid -> In (l, o) (called s v d u f l0) -> filtf fid l o = None -> False).
        { intros l o fid -> HI HN. rewrite (called_raises _ _ _ _ _ _ _ _ HI HN) in EL. discriminate. }
        destruct a as [|o0|e].
        * rewrite IH. split; intros (l & o & fid & Hf & HI & HN); exists l, o, fid; repeat split; auto.
          -- apply in_or_app. now right.
          -- apply in_app_or in HI. destruct HI as [HI|HI]; [destruct (NC _ _ _ Hf HI HN)|exact HI].
        * rewrite IH. split; intros (l & o & fid & Hf & HI & HN); exists l, o, fid; repeat split; auto.
          -- apply in_or_app. now right.
          -- apply in_app_or in HI. destruct HI as [HI|HI]; [destruct (NC _ _ _ Hf HI HN)|exact HI].
        * split; [discriminate|]. intros (l & o & fid & Hf & HI & HN). destruct (NC _ _ _ Hf HI HN).
      + split; [|reflexivity]. intros _.
        destruct (boom_called _ _ _ _ _ _ EL) as (o & fid & Hf & HC & HN).
        exists l0, o, fid. rewrite HC. repeat split; auto. now left.
  Qed.

  Theorem boom_iff_some_invocation_raises s v d u f :
    neighbors_pure_f filtf s v d u f = F3Boom <->
    exists l o fid, f = Some fid /\ In (l, o) (invocations s v d u f) /\ filtf fid l o = None.
  Proof. unfold neighbors_pure_f, invocations. apply boom_loop_iff. Qed.

  (* every invocation but the last returned normally: the list stops at the first raising one, so
     "the k-th invocation raises" is the argument-based fault on the k-th pair of the list *)
  Lemma invocations_loop_only_last_raises s v d u fid : forall ls pre l o post,
    invocations_loop s v d u (Some fid) ls = pre ++ (l, o) :: post -> post <> [] ->
    exists b, filtf fid l o = Some b.
  Proof.
    induction ls as [|l0 r IH]; intros pre l o post E NP; cbn [invocations_loop] in E.
    - destruct pre; discriminate.
    - assert (SHORT : called s v d u (Some fid) l0 = pre ++ (l, o) :: post -> False).
      { unfold called. destruct (other s l0 (Some v)); [destruct pre; discriminate|].
        destruct (consults _ _ _ _ _ _); [|destruct pre; discriminate].
        destruct pre as [|p [|q pre]]; cbn; intro E'; inversion E'; subst; try contradiction.
      }
      destruct (nb_link_f filtf s v d u (Some fid) l0) as [a|] eqn:EL; [|destruct (SHORT E)].
      assert (TAIL : called s v d u (Some fid) l0 ++ invocations_loop s v d u (Some fid) r = pre ++ (l, o) :: post ->
                     exists b, filtf fid l o = Some b).
      { intro E'. destruct (called s v d u (Some fid) l0) as [|p c] eqn:EC.
        - cbn in E'. exact (IH _ _ _ _ E' NP).
        - assert (c = []) as ->.
          { revert EC. unfold called. destruct (other s l0 (Some v)); [discriminate|].
            destruct (consults _ _ _ _ _ _); [|discriminate]. intro X; inversion X; reflexivity. }
          destruct pre as [|q pre]; cbn in E'; inversion E'; subst.
          + apply (called_normal s v d u fid l l0 o a); [rewrite EC; now left|exact EL].
          + exact (IH _ _ _ _ H1 NP). }
      destruct a as [|o0|e]; [exact (TAIL E)|exact (TAIL E)|destruct (SHORT E)].
  Qed.

  Theorem invocations_only_last_raises s v d u fid pre l o post :
    invocations s v d u (Some fid) = pre ++ (l, o) :: post -> post <> [] ->
    exists b, filtf fid l o = Some b.
  Proof. unfold invocations. apply invocations_loop_only_last_raises. Qed.

  (* no filter function, no invocation *)
  Lemma invocations_no_filter s v d u : invocations s v d u None = [].
  Proof.
    unfold invocations. induction (vl s v) as [|l r IH]; cbn [invocations_loop]; [reflexivity|].
    assert (C : called s v d u None l = []) by (unfold called; destruct (other s l (Some v)); reflexivity).
    rewrite C, IH. destruct (nb_link_f filtf s v d u None l) as [[| |]|]; reflexivity.
  Qed.
End Faulty.

(* ====================================================================================== *)
(* 7. non-vacuity                                                                         *)
(* ====================================================================================== *)
(* vertices 0 1 2; directed edges 3 : 0 -> 1 and 4 : 0 -> 2; caching switched on *)
Definition ex_heap : state :=
  run [NewVertex false [] []; NewVertex false [] []; NewVertex false [] [];
       NewEdge KDir (Some 0) (Some 1); NewEdge KDir (Some 0) (Some 2); SetCaching true] empty.
(* one callback table: filter function 0 raises on link 4 and accepts everything else;
   filter function 1 accepts everything and never raises *)
Definition ex_filtf (fid l : nat) (o : option nat) : option bool :=
  if Nat.eqb fid 0 && Nat.eqb l 4 then None else Some true.

Example fault_example :
  caching ex_heap = true /\ vl ex_heap 0 = [3; 4] /\
  (* filter 0: link 3 is accepted, then the callback raises on link 4: Boom, state untouched *)
  neighbors_cf ex_filtf ex_heap 0 Fwd UErr (Some 0) = (ex_heap, F3Boom) /\
  invocations ex_filtf ex_heap 0 Fwd UErr (Some 0) = [(3, Some 1); (4, Some 2)] /\
  ca_lookup (Fwd, UErr, Some 0) (ca ex_heap 0) = None /\
  (* backwards the cascade never reaches the callback on these links: no invocation, no fault *)
  invocations ex_filtf ex_heap 0 Bwd UErr (Some 0) = [] /\
  snd (neighbors_cf ex_filtf ex_heap 0 Bwd UErr (Some 0)) = F3Ok [] /\
  (* the same call without a filter function answers normally *)
  snd (neighbors_cf ex_filtf ex_heap 0 Fwd UErr None) = F3Ok [Some 1; Some 2] /\
  (* filter 1 does not raise: the first call is a miss that stores, the second one a hit *)
  (let s1 := fst (neighbors_cf ex_filtf ex_heap 0 Fwd UErr (Some 1)) in
   ca_lookup (Fwd, UErr, Some 1) (ca ex_heap 0) = None /\
   ca_lookup (Fwd, UErr, Some 1) (ca s1 0) = Some [Some 1; Some 2] /\
   neighbors_cf ex_filtf s1 0 Fwd UErr (Some 1) = (s1, F3Ok [Some 1; Some 2]) /\
   (* with that entry in the memo, filter 0 still faults and still leaves everything as it was *)
   neighbors_cf ex_filtf s1 0 Fwd UErr (Some 0) = (s1, F3Boom)).
Proof. vm_compute. repeat split. Qed.

Print Assumptions nb_decide_irrelevant.
Print Assumptions faulty_total_agrees.
Print Assumptions neighbors_cf_total_agrees.
Print Assumptions Coh_f_total.
Print Assumptions raising_filter_changes_nothing.
Print Assumptions raising_lookup_changes_nothing.
Print Assumptions abnormal_end_changes_nothing.
Print Assumptions faulty_query_frame.
Print Assumptions Coh_f_query.
Print Assumptions faulty_hit_is_recomputation.
Print Assumptions retry_after_fault_gives_normal_answer.
Print Assumptions fault_leaves_no_new_entry.
Print Assumptions fault_leaves_cache.
Print Assumptions boom_iff_some_invocation_raises.
Print Assumptions invocations_only_last_raises.
Print Assumptions fault_example.
