(* StructCheck.v — boolean comparison of the model's lock-step transcript with the
   transcript observed on the implementation (used by generated cases files only). *)
From EG Require Import Base State Nbrs Struct.

Definition mk (k : list cls) (vls : list (list nat)) (lvs : list (list (option nat)))
           (vus uvs : list (list nat)) (uls las : list (option nat)) : state :=
  {| kind := k; vlinks := vls; lverts := lvs; vunis := vus; uverts := uvs; ulaws := uls; lapp := las;
     cache := map (fun _ => []) k; caching := false |}.

Definition lln_eqb := list_eqb (list_eqb Nat.eqb).
(* which part of the heap a leg compares: only what its property speaks about *)
Inductive mask := MLinks | MUnis | MGraph | MLaws | MAll.
Definition obs_eqb (m : mask) (a b : state) : bool :=
  let links := lln_eqb (vlinks a) (vlinks b) && list_eqb (list_eqb oeqb) (lverts a) (lverts b) in
  let unis := lln_eqb (vunis a) (vunis b) && lln_eqb (uverts a) (uverts b) in
  let laws := list_eqb oeqb (ulaws a) (ulaws b) && list_eqb oeqb (lapp a) (lapp b) in
  list_eqb cls_eqb (kind a) (kind b) &&
  match m with
  | MLinks => links | MUnis => unis | MGraph => links && unis | MLaws => laws
  | MAll => links && unis && laws
  end.

Definition value_eqb (a b : value) : bool :=
  match a, b with
  | VNone, VNone => true
  | VId i, VId j => Nat.eqb i j
  | VSet x, VSet y => list_eqb Nat.eqb (sort x) (sort y)
  | VList x, VList y => list_eqb oeqb x y
  | _, _ => false
  end.
Definition outcome_eqb (a b : outcome) : bool :=
  match a, b with
  | Ret x, Ret y => value_eqb x y
  | Raised e, Raised f => exn_eqb e f
  | _, _ => false
  end.

Fixpoint check_hist (m : mask) (s : state) (h : list (op * (outcome * state))) : bool :=
  match h with
  | [] => true
  | (o, (eo, es)) :: r =>
      let '(s', out) := step s o in
      outcome_eqb out eo && obs_eqb m s' es && check_hist m s' r
  end.
Definition scheck (m : mask) (h : list (op * (outcome * state))) : bool := check_hist m empty h.

(* diagnostics: the model's own transcript *)
Fixpoint transcript (s : state) (ops : list op) : list (outcome * state) :=
  match ops with
  | [] => []
  | o :: r => let '(s', out) := step s o in (out, set_caching (mk (kind s') (vlinks s') (lverts s') (vunis s') (uverts s') (ulaws s') (lapp s')) false) :: transcript s' r
  end.
