From EG Require Import Base Lemmas Lemmas2 State StateLemmas Nbrs Struct Footprint StateRw Ref RefStep Cache.
From EG Require Import LinkProofs LinkStep.
From EG Require LawsProofs UniProofs RefProofs.
Import RefProofs.
From EG Require Import CacheProofs.

Lemma in_orem_or v w X : In (Some w) X -> In (Some w) (oremove_all (Some v) X ++ [Some v]).
Proof.
  intro H. apply in_or_app. destruct (Nat.eq_dec w v) as [->|N]; [right; now left|left].
  apply in_oremove_all. split; [exact H|congruence].
Qed.

Lemma frame_r_l_unlink_from s l ov : wf s -> link_inv s -> l < next s ->
  frame s (r_l_unlink_from s l ov).
Proof.
  intros W [A Nd] Hl. unfold r_l_unlink_from.
  destruct (memo ov (lv s l)) eqn:Em; [|apply frame_refl].
  set (s1 := set_lv s l (oremove1 ov (lv s l))).
  assert (W1 : wf s1) by (subst s1; auto with st).
  assert (L1 : lv s1 l = oremove1 ov (lv s l)) by (subst s1; apply lv_set_lv_same; auto).
  assert (L1o : forall k, k <> l -> lv s1 k = lv s k) by (intros k Nk; subst s1; apply lv_set_lv_other; congruence).
  destruct ov as [v|].
  2:{ apply (frame_link_edit s _ l A).
      - cmono_tac. apply cmono_refl.
      - intro i. srw. reflexivity.
      - intros k Nk. srw. now apply L1o.
      - intro w. left. srw. reflexivity.
      - right. intros w Hw. apply ca_inval_all_in. srw. rewrite L1. apply in_oremove1_neq; [discriminate|exact Hw]. }
  set (s2 := set_lv s1 l (oremove_all (Some v) (lv s1 l))).
  assert (L2 : lv s2 l = oremove_all (Some v) (lv s l)).
  { subst s2. rewrite lv_set_lv_same by (auto; subst s1; srw; auto). rewrite L1. apply oremove_all_oremove1. }
  assert (L2o : forall k, k <> l -> lv s2 k = lv s k).
  { intros k Nk. subst s2. rewrite lv_set_lv_other by congruence. now apply L1o. }
  assert (V2 : forall w, vl s2 w = vl s w) by (intro; subst s2 s1; srw; reflexivity).
  set (s3 := if memn l (vl s2 v) then inval (set_vl s2 v (remove1 l (vl s2 v))) v else inval s2 v).
  assert (L3 : forall k, lv s3 k = lv s2 k) by (intro; subst s3; ifs; srw; reflexivity).
  apply (frame_link_edit s _ l A).
  - apply cmono_inval_all. subst s3. ifs; cmono_tac; apply cmono_refl.
  - intro i. subst s3. ifs; srw; reflexivity.
  - intros k Nk. srw. rewrite L3. now apply L2o.
  - intro w. destruct (Nat.eq_dec w v) as [->|N].
    + right. apply ca_inval_all_in. apply in_or_app. right. now left.
    + left. srw. subst s3. ifs; srw; rewrite ?vl_set_vl_other by congruence; apply V2.
  - right. intros w Hw. apply ca_inval_all_in. rewrite L3, L2. now apply in_orem_or.
Qed.

Lemma frame_r_v_remove_from_link s v l : wf s -> link_inv s -> v < next s -> l < next s ->
  frame s (r_v_remove_from_link s v l).
Proof.
  intros W [A Nd] Hv Hl. unfold r_v_remove_from_link.
  destruct (memn l (vl s v)) eqn:Em.
  2:{ apply (frame_link_edit s _ l A).
      - cmono_tac. apply cmono_refl.
      - reflexivity.
      - reflexivity.
      - intro; now left.
      - now left. }
  set (s0 := set_vl s v (remove1 l (vl s v))).
  assert (W0 : wf s0) by (subst s0; auto with st).
  assert (V0 : forall w, w <> v -> vl s0 w = vl s w) by (intros w N; subst s0; apply vl_set_vl_other; congruence).
  destruct (memo (Some v) (lv s0 l)) eqn:Em2.
  2:{ apply (frame_link_edit s _ l A).
      - cmono_tac. apply cmono_refl.
      - reflexivity.
      - reflexivity.
      - intro w. destruct (Nat.eq_dec w v) as [->|N].
        + right. rewrite ca_inval, Nat.eqb_refl. reflexivity.
        + left. srw. now apply V0.
      - left. reflexivity. }
  set (s1 := set_lv s0 l (oremove1 (Some v) (lv s0 l))).
  assert (W1 : wf s1) by (subst s1; auto with st).
  assert (L1 : lv s1 l = oremove1 (Some v) (lv s l)) by (subst s1; rewrite lv_set_lv_same by auto; reflexivity).
  set (s2 := set_lv s1 l (oremove_all (Some v) (lv s1 l))).
  assert (L2 : lv s2 l = oremove_all (Some v) (lv s l)).
  { subst s2. rewrite lv_set_lv_same by (auto; subst s1 s0; srw; auto). rewrite L1. apply oremove_all_oremove1. }
  assert (L2o : forall k, k <> l -> lv s2 k = lv s k).
  { intros k Nk. subst s2 s1. rewrite !lv_set_lv_other by congruence. reflexivity. }
  apply (frame_link_edit s _ l A).
  - cmono_tac. apply cmono_refl.
  - intro i. srw. reflexivity.
  - intros k Nk. srw. now apply L2o.
  - intro w. destruct (Nat.eq_dec w v) as [->|N].
    + right. rewrite ca_inval, Nat.eqb_refl. reflexivity.
    + left. srw. subst s2 s1. srw. now apply V0.
  - right. intros w Hw. rewrite ca_inval. destruct (Nat.eqb w v); [reflexivity|].
    apply ca_inval_all_in. srw. rewrite L2. now apply in_orem_or.
Qed.
