(* MemoAliasProofs.v — proofs about the object-identity model of the memo (MemoAlias.v, C12).

   Proved here (all closed under the global context, stdlib only):
   - minv                  : invariant of the copying code: every memo location is allocated, has
                             NEVER been handed to the client, and holds the current truth for its
                             key; every escaped location is allocated.
   - minv_init, minv_step  : minv holds initially and is preserved by every mop with copying = true.
   - query_returns_truth   : under minv, the list handed out by a query has the recomputed content.
   - manswers_truths       : minv s -> manswers true s ops = mtruths true s ops.
   - client_edits_never_change_answers :
                             manswers true (minit c) ops = mtruths true (minit c) ops
                             (arbitrary client edits, mutations, flag toggles).
   - mtruths_erase, answers_independent_of_client_edits :
                             the Some-entries of the answers are the same for ops and erase ops
                             (erase removes all MClient steps).
   - aliasing_refuted_without_copies : with copying = false a concrete history answers a
                             corrupted list (answers <> truths).
   - copies_example        : the same history with copying = true answers correctly. *)
From EG Require Import Base MemoAlias.

(* ---------- 1. the invariant ---------- *)
Definition minv (s : mstate) : Prop :=
  (forall k c, mlookup k (memo s) = Some c ->
     c < length (cells s) /\ ~ In c (escaped s) /\ get [] c (cells s) = get [] k (cur s)) /\
  (forall c, In c (escaped s) -> c < length (cells s)).

Lemma minv_init c : minv (minit c).
Proof.
  split; cbn.
  - intros k c0 H. discriminate.
  - intros c0 [].
Qed.

Lemma minv_step s o : minv s -> minv (fst (mstep true s o)).
Proof.
  intros [HM HE]. destruct o as [k | c | b | loc xs]; unfold mstep.
  - (* MQuery *)
    destruct (flag s).
    + destruct (mlookup k (memo s)) as [c0|] eqn:EL.
      * (* hit: hand out a fresh copy *)
        unfold alloc_cell, escape; unfold minv; cbn [cells memo cur flag escaped fst snd].
        split.
        -- intros k' c' HL. destruct (HM k' c' HL) as (H1 & H2 & H3).
           rewrite app_length; cbn [length]. split; [lia|]. split.
           ++ intros [HC | HC]; [lia | contradiction].
           ++ rewrite get_app_old by exact H1. exact H3.
        -- intros c' [HC | HC]; rewrite app_length; cbn [length]; [lia|].
           apply HE in HC. lia.
      * (* miss: hand out [a], store a copy at [b] *)
        unfold alloc_cell, escape, set_memo; unfold minv; cbn [cells memo cur flag escaped fst snd].
        split.
        -- intros k' c' HL. cbn [mlookup] in HL.
           rewrite !app_length; cbn [length].
           destruct (Nat.eqb k' k) eqn:EK.
           ++ apply Nat.eqb_eq in EK. subst k'. inversion HL; subst c'; clear HL.
              rewrite app_length; cbn [length].
              split; [lia|]. split.
              ** intros [HC | HC]; [lia|]. apply HE in HC. lia.
              ** replace (length (cells s) + 1) with (length (cells s ++ [get [] k (cur s)]))
                   by (rewrite app_length; reflexivity).
                 apply get_app_new.
           ++ destruct (HM k' c' HL) as (H1 & H2 & H3).
              split; [lia|]. split.
              ** intros [HC | HC]; [lia | contradiction].
              ** rewrite get_app_old by (rewrite app_length; cbn [length]; lia).
                 rewrite get_app_old by exact H1. exact H3.
        -- intros c' HC. rewrite !app_length; cbn [length].
           destruct HC as [HC | HC]; [lia|]. apply HE in HC. lia.
    + (* flag off: fresh list, nothing stored *)
      unfold alloc_cell, escape; unfold minv; cbn [cells memo cur flag escaped fst snd].
      split.
      * intros k' c' HL. destruct (HM k' c' HL) as (H1 & H2 & H3).
        rewrite app_length; cbn [length]. split; [lia|]. split.
        -- intros [HC | HC]; [lia | contradiction].
        -- rewrite get_app_old by exact H1. exact H3.
      * intros c' [HC | HC]; rewrite app_length; cbn [length]; [lia|].
        apply HE in HC. lia.
  - (* MMutate *)
    unfold minv; cbn [cells memo cur flag escaped fst snd]. split.
    + intros k c0 HL. cbn in HL. discriminate.
    + exact HE.
  - (* MFlag *)
    unfold minv; cbn [cells memo cur flag escaped fst snd]. split; assumption.
  - (* MClient *)
    destruct (memn loc (escaped s)) eqn:EM; [|cbn [fst]; split; assumption].
    apply memn_In in EM.
    unfold minv; cbn [cells memo cur flag escaped fst snd]. split.
    + intros k c0 HL. destruct (HM k c0 HL) as (H1 & H2 & H3).
      rewrite set_length. split; [exact H1|]. split; [exact H2|].
      rewrite get_set_other; [exact H3|].
      intro HEq. subst c0. contradiction.
    + intros c0 HC. rewrite set_length. apply HE. exact HC.
Qed.

(* ---------- 2. a query returns the truth ---------- *)
Lemma query_returns_truth s k s' c :
  minv s -> mstep true s (MQuery k) = (s', Some c) ->
  get [] c (cells s') = get [] k (cur s).
Proof.
  intros [HM HE]. unfold mstep.
  destruct (flag s).
  - destruct (mlookup k (memo s)) as [c0|] eqn:EL.
    + unfold alloc_cell, escape. intro HS. inversion HS; subst; clear HS.
      cbn [cells memo cur flag escaped fst snd].
      rewrite get_app_new. destruct (HM k c0 EL) as (_ & _ & H3). exact H3.
    + unfold alloc_cell, escape, set_memo. intro HS. inversion HS; subst; clear HS.
      cbn [cells memo cur flag escaped fst snd].
      rewrite get_app_old by (rewrite app_length; cbn [length]; lia).
      apply get_app_new.
  - unfold alloc_cell, escape. intro HS. inversion HS; subst; clear HS.
    cbn [cells memo cur flag escaped fst snd].
    apply get_app_new.
Qed.

Lemma query_hands_out s k : exists s' c, mstep true s (MQuery k) = (s', Some c).
Proof.
  unfold mstep. destruct (flag s); [destruct (mlookup k (memo s))|];
    unfold alloc_cell; eexists; eexists; reflexivity.
Qed.

Lemma nonquery_none b s o :
  (forall k, o <> MQuery k) -> snd (mstep b s o) = None.
Proof.
  intro H. destruct o as [k | c | b' | loc xs]; cbn.
  - exfalso. apply (H k). reflexivity.
  - reflexivity.
  - reflexivity.
  - destruct (memn loc (escaped s)); reflexivity.
Qed.

(* ---------- 3. THE THEOREM ---------- *)
Lemma manswers_truths ops : forall s, minv s -> manswers true s ops = mtruths true s ops.
Proof.
  induction ops as [|o r IH]; intros s HI; [reflexivity|].
  cbn [manswers mtruths].
  pose proof (minv_step s o HI) as HI'.
  destruct o as [k | c | b | loc xs].
  - destruct (query_hands_out s k) as (s' & c & HS).
    rewrite HS in *. cbn [fst] in HI'.
    rewrite (query_returns_truth s k s' c HI HS).
    f_equal. apply IH. exact HI'.
  - destruct (mstep true s (MMutate c)) as [s' h]. cbn [fst] in HI'.
    f_equal. apply IH. exact HI'.
  - destruct (mstep true s (MFlag b)) as [s' h]. cbn [fst] in HI'.
    f_equal. apply IH. exact HI'.
  - destruct (mstep true s (MClient loc xs)) as [s' h]. cbn [fst] in HI'.
    f_equal. apply IH. exact HI'.
Qed.

Theorem client_edits_never_change_answers :
  forall c ops, manswers true (minit c) ops = mtruths true (minit c) ops.
Proof. intros c ops. apply manswers_truths. apply minv_init. Qed.

(* ---------- 4. erasure of client edits ---------- *)
Definition erase (ops : list mop) : list mop :=
  filter (fun o => match o with MClient _ _ => false | _ => true end) ops.

Fixpoint filter_some {A} (l : list (option A)) : list A :=
  match l with
  | [] => []
  | Some a :: r => a :: filter_some r
  | None :: r => filter_some r
  end.

(* the truth only depends on [cur], which client edits never touch *)
Lemma cur_step b s o :
  cur (fst (mstep b s o)) = match o with MMutate c => c | _ => cur s end.
Proof.
  destruct o as [k | c | b' | loc xs]; unfold mstep.
  - destruct (flag s); [destruct (mlookup k (memo s)); destruct b|]; reflexivity.
  - reflexivity.
  - reflexivity.
  - destruct (memn loc (escaped s)); reflexivity.
Qed.

Lemma mtruths_erase b b' ops : forall s s',
  cur s = cur s' ->
  filter_some (mtruths b s ops) = filter_some (mtruths b' s' (erase ops)).
Proof.
  induction ops as [|o r IH]; intros s s' HC; [reflexivity|].
  cbn [mtruths erase filter].
  pose proof (cur_step b s o) as C1.
  destruct o as [k | c | f | loc xs].
  - cbn [mtruths]. pose proof (cur_step b' s' (MQuery k)) as C2.
    destruct (mstep b s (MQuery k)) as [s1 h1].
    destruct (mstep b' s' (MQuery k)) as [s1' h1']. cbn [fst] in *.
    cbn [filter_some]. rewrite HC. f_equal. apply IH. congruence.
  - cbn [mtruths]. pose proof (cur_step b' s' (MMutate c)) as C2.
    destruct (mstep b s (MMutate c)) as [s1 h1].
    destruct (mstep b' s' (MMutate c)) as [s1' h1']. cbn [fst] in *.
    cbn [filter_some]. apply IH. congruence.
  - cbn [mtruths]. pose proof (cur_step b' s' (MFlag f)) as C2.
    destruct (mstep b s (MFlag f)) as [s1 h1].
    destruct (mstep b' s' (MFlag f)) as [s1' h1']. cbn [fst] in *.
    cbn [filter_some]. apply IH. congruence.
  - destruct (mstep b s (MClient loc xs)) as [s1 h1]. cbn [fst] in *.
    cbn [filter_some]. apply IH. congruence.
Qed.

Theorem answers_independent_of_client_edits :
  forall c ops,
    filter_some (manswers true (minit c) ops) =
    filter_some (manswers true (minit c) (erase ops)).
Proof.
  intros c ops. rewrite !client_edits_never_change_answers.
  apply mtruths_erase. reflexivity.
Qed.

(* ---------- 5. the pinned (aliasing) behaviour is refuted ---------- *)
Example aliasing_refuted_without_copies :
  exists c ops, manswers false (minit c) ops <> mtruths false (minit c) ops.
Proof.
  exists [[1; 2]], [MFlag true; MQuery 0; MClient 0 [1; 2; 99]; MQuery 0].
  vm_compute. discriminate.
Qed.

(* what the aliasing history actually answers: the second query returns the corrupted list *)
Example aliasing_example :
  manswers false (minit [[1; 2]]) [MFlag true; MQuery 0; MClient 0 [1; 2; 99]; MQuery 0]
  = [None; Some [1; 2]; None; Some [1; 2; 99]].
Proof. vm_compute. reflexivity. Qed.

(* ---------- 6. non-vacuity: with copies the same history answers correctly ---------- *)
Example copies_example :
  manswers true (minit [[1; 2]]) [MFlag true; MQuery 0; MClient 0 [1; 2; 99]; MQuery 0]
  = [None; Some [1; 2]; None; Some [1; 2]].
Proof. vm_compute. reflexivity. Qed.

Print Assumptions client_edits_never_change_answers.
Print Assumptions query_returns_truth.
Print Assumptions answers_independent_of_client_edits.
Print Assumptions aliasing_refuted_without_copies.
