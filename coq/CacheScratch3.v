From EG Require Import Base Lemmas Lemmas2 State StateLemmas Nbrs Struct Footprint StateRw Ref RefStep Cache.
From EG Require Import LinkProofs LinkStep.
From EG Require LawsProofs UniProofs RefProofs.
Import RefProofs.
From EG Require Import CacheProofs.

Lemma frame_r_l_set_end s l idx new : wf s -> link_inv s -> l < next s -> idx <= 1 ->
  (forall v, new = Some v -> v < next s) ->
  frame s (res_state (r_l_set_end s l idx new)).
Proof.
  intros W I Hl Hidx Hnew.
  destruct (lv1 s l) as [e1|] eqn:E1.
  2:{ unfold r_l_set_end. rewrite E1. apply frame_refl. }
  destruct (lv2 s l) as [e2|] eqn:E2.
  2:{ unfold r_l_set_end. rewrite E1, E2. apply frame_refl. }
  destruct (r_l_set_end_reads s l idx new e1 e2 W I Hl Hidx Hnew E1 E2) as (s' & E & Ho & L & V & N & K).
  rewrite E. cbn [res_state].
  unfold r_l_set_end in E. rewrite E1, E2 in E. injection E as E.
  set (X := lv s l) in *. set (old := if Nat.eqb idx 0 then e1 else e2) in *.
  assert (Hlen : idx < length X) by (apply nth_error_Some; congruence).
  assert (Hold : In old [e1; e2]) by (subst old; destruct (Nat.eqb idx 0); cbn; auto).
  match type of E with inval_all ?t _ = _ => set (s3 := t) in * end.
  assert (M : cmono s s').
  { rewrite <- E. apply cmono_inval_all. subst s3.
    assert (M2 : cmono s (match old with
                          | Some ov => if memo (Some ov) (lv (set_lv s l (set idx new X)) l)
                                       then set_lv s l (set idx new X)
                                       else r_v_remove_from_link (set_lv s l (set idx new X)) ov l
                          | None => set_lv s l (set idx new X) end)).
    { destruct old; ifs; try apply cmono_r_v_remove_from_link; apply cmono_set_lv, cmono_refl. }
    destruct new; ifs; try apply cmono_r_v_add_to_link; exact M2. }
  assert (L3 : lv s3 l = set idx new X).
  { pose proof (L l) as Ll. rewrite <- E, lv_inval_all, Nat.eqb_refl in Ll. exact Ll. }
  assert (CL : forall w, In (Some w) (set idx new X ++ [e1; e2]) -> ca s' w = []).
  { intros w Hw. rewrite <- E. apply ca_inval_all_in. now rewrite L3. }
  apply (frame_link_edit s s' l (proj1 I) M K).
  - intros k Nk. rewrite L. destruct (Nat.eqb_spec k l); [contradiction|reflexivity].
  - intro w. rewrite V.
    destruct (oeqb (Some w) old && negb (memo old (set idx new X))) eqn:D1.
    { right. apply andb_true_iff in D1 as [D1 _]. apply oeqb_eq in D1. apply CL, in_or_app. right. now rewrite D1. }
    destruct (oeqb (Some w) new && negb (memn l (vl s w))) eqn:D2; [|now left].
    right. apply andb_true_iff in D2 as [D2 _]. apply oeqb_eq in D2. apply CL, in_or_app. left.
    rewrite D2. now apply in_set_new.
  - right. intros w Hw. apply CL, in_or_app.
    destruct (oeqb (Some w) old) eqn:D.
    + right. apply oeqb_eq in D. now rewrite D.
    + left. apply in_set_keep; [exact Hw|]. rewrite Ho. intros [= D']. apply oeqb_neq in D. congruence.
Qed.
