(* CacheProofs.v — property C05: the per-vertex memo of neighbors() answers is TRANSPARENT.
   At every point of every history interleaving graph mutations, toggles of the caching flag and
   queries, a cached answer equals what the uncached loop would recompute on the current graph.
   Proof file: stdlib only, nothing admitted, no axioms (Print Assumptions at the end: all closed).
   `filt` (the table of filter functions) is arbitrary throughout.

   1  neighbors_pure_footprint   neighbors_pure filt s v reads only vl s v and, for each l in it,
                                 lv s l and kd s l (nb_link_footprint, nb_loop_footprint).
   2  ckey_eqb_eq                key comparison is decidable equality on dirn * unk * option nat;
      ca_lookup_store_same/other the memo is a dictionary;
      Coh_query                  wf s -> Coh filt s -> isv s v -> the answer of neighbors_c is
                                 neighbors_pure (hit: the stored entry; miss: exactly the recomputed
                                 list is stored), Coh is kept, and only `cache` may change.
   3  Coh_transfer               Coh s, and every w has ca s' w = [] or (ca s' w = ca s w and an
                                 unchanged footprint: vl w, and lv / kd of its links) -> Coh s'.
                                 (`frame s s'` names that condition; it is reflexive, transitive.)
      ca_inval, ca_inval_all     invalidation empties exactly the named memos (no side condition).
      frame_link_edit            an edit around one link l: memos only emptied (cmono), kinds and
                                 other links' ends kept, whoever's link list changed and whoever was
                                 named by l (when its end list changed) is emptied -> frame
                                 (uses the association invariant: l in vl w -> w named by lv l).
      frame_r_v_add_to_link, frame_r_l_add_vertex, frame_r_l_unlink_from,
      frame_r_v_remove_from_link, frame_r_l_set_end, frame_alloc, same4_frame (universe / laws /
      flag operations touch none of vlinks lverts kind cache), frame_nv_links (Vertex(links=..)
      loop), frame_unlink_fold (explicit.unlink loop), frame_r_new_edge,
      frame_r_step               wf s -> link_inv s -> frame s (fst (r_step s o))  for EVERY op;
      Coh_step                   Inv s -> o is not NewLaws (Some _) -> Coh filt s ->
                                 Coh filt (fst (step s o))          -- every mutator, no exception.
   4  Inv_query                  a query keeps Inv (it writes `cache` only);
      crun_pres, Coh_reachable, Inv_reachable_c
                                 Inv and Coh hold after every history from the empty heap
                                 (histories without NewLaws (Some _), as for step_refines).
   5  cached_answers_equal_recomputed    THE TRANSPARENCY THEOREM: from any state with Inv and Coh,
                                 for every split cs = pre ++ CNb v d u f :: post with v a vertex,
                                 the outcome of the query is that of neighbors_pure on the current
                                 heap (Ret (VList l) / Raised e) -- whatever the flag is and was.
      cached_answers_equal_recomputed_empty   the same from the empty heap.
   6  answers_independent_of_flag        answers filt cs empty = answers filt (map force_off cs) empty:
                                 every outcome (mutators and queries) is the one obtained with
                                 caching never enabled.  Route: obs s = all fields but cache/caching;
                                 r_step respects obs-equality and returns equal outcomes
                                 (r_step_sim; the reference edits commute with replacing the memo
                                 table, `wcc`), queries answer alike under Coh (query_sim).       *)
From EG Require Import Base Lemmas Lemmas2 State StateLemmas Nbrs Struct Footprint StateRw Ref RefStep Cache.
From EG Require Import LinkProofs LinkStep.
From EG Require LawsProofs UniProofs RefProofs.
Import RefProofs.

(* ====================================================================================== *)
(* 1. the footprint of neighbors_pure                                                     *)
(* ====================================================================================== *)
Lemma nb_link_footprint filt s s' v d u f l :
  lv s' l = lv s l -> kd s' l = kd s l -> nb_link filt s' v d u f l = nb_link filt s v d u f l.
Proof.
  intros Hl Hk. unfold nb_link, other, is_end1, is_end2, lv1, lv2. rewrite Hl, Hk. reflexivity.
Qed.

Lemma nb_loop_footprint filt s s' v d u f : forall ls,
  (forall l, In l ls -> lv s' l = lv s l /\ kd s' l = kd s l) ->
  forall acc, nb_loop filt s' v d u f ls acc = nb_loop filt s v d u f ls acc.
Proof.
  induction ls as [|l r IH]; intros H acc; cbn [nb_loop]; [reflexivity|].
  destruct (H l (or_introl eq_refl)) as [Hl Hk].
  rewrite (nb_link_footprint filt s s' v d u f l Hl Hk).
  assert (Hr : forall k, In k r -> lv s' k = lv s k /\ kd s' k = kd s k) by (intros k Hk'; apply H; now right).
  destruct (nb_link filt s v d u f l); auto.
Qed.

Theorem neighbors_pure_footprint : forall filt s s' v,
  vl s' v = vl s v ->
  (forall l, In l (vl s v) -> lv s' l = lv s l /\ kd s' l = kd s l) ->
  forall d u f, neighbors_pure filt s' v d u f = neighbors_pure filt s v d u f.
Proof.
  intros filt s s' v Hv H d u f. unfold neighbors_pure. rewrite Hv. now apply nb_loop_footprint.
Qed.

(* ====================================================================================== *)
(* 2. the memo as a dictionary; a query keeps coherence                                   *)
(* ====================================================================================== *)
Lemma dirn_eqb_eq a b : dirn_eqb a b = true <-> a = b.
Proof. destruct a, b; cbn; split; congruence. Qed.
Lemma unk_eqb_eq a b : unk_eqb a b = true <-> a = b.
Proof. destruct a, b; cbn; split; congruence. Qed.
Lemma ckey_eqb_eq a b : ckey_eqb a b = true <-> a = b.
Proof.
  destruct a as [[d1 u1] f1], b as [[d2 u2] f2]. unfold ckey_eqb.
  rewrite !andb_true_iff, dirn_eqb_eq, unk_eqb_eq, oeqb_eq. split.
  - intros [[-> ->] ->]. reflexivity.
  - intros [= -> -> ->]. auto.
Qed.
Lemma ckey_eqb_refl a : ckey_eqb a a = true. Proof. now apply ckey_eqb_eq. Qed.
Lemma ckey_eqb_neq a b : a <> b -> ckey_eqb a b = false.
Proof. intro H. destruct (ckey_eqb a b) eqn:E; auto. apply ckey_eqb_eq in E. contradiction. Qed.

Lemma ca_lookup_store_same k x c : ca_lookup k (ca_store k x c) = Some x.
Proof. unfold ca_store. cbn [ca_lookup]. now rewrite ckey_eqb_refl. Qed.
Lemma ca_lookup_filter_other k k' c : k' <> k ->
  ca_lookup k' (filter (fun p => negb (ckey_eqb k (fst p))) c) = ca_lookup k' c.
Proof.
  intro N. induction c as [|[k2 y] r IH]; cbn [filter ca_lookup fst]; [reflexivity|].
  destruct (ckey_eqb k k2) eqn:E; cbn [negb].
  - apply ckey_eqb_eq in E. subst k2. rewrite (ckey_eqb_neq k' k N). exact IH.
  - cbn [ca_lookup]. destruct (ckey_eqb k' k2); [reflexivity|exact IH].
Qed.
Lemma ca_lookup_store_other k k' x c : k' <> k -> ca_lookup k' (ca_store k x c) = ca_lookup k' c.
Proof.
  intro N. unfold ca_store. cbn [ca_lookup]. rewrite (ckey_eqb_neq k' k N). now apply ca_lookup_filter_other.
Qed.

Lemma ckey_dec (a b : ckey) : {a = b} + {a <> b}.
Proof. destruct (ckey_eqb a b) eqn:E; [left; now apply ckey_eqb_eq|right; intro H; apply ckey_eqb_eq in H; congruence]. Qed.

Lemma isv_lt' s i : isv s i = true -> i < next s.
Proof. apply LinkStep.isv_lt. Qed.

Theorem Coh_query filt s v d u f : wf s -> Coh filt s -> isv s v = true ->
  let '(s', r) := neighbors_c filt s v d u f in
  r = neighbors_pure filt s v d u f /\ Coh filt s' /\
  vlinks s' = vlinks s /\ lverts s' = lverts s /\ kind s' = kind s /\ caching s' = caching s.
Proof.
  intros W C Hv. apply isv_lt' in Hv. unfold neighbors_c.
  destruct (caching s) eqn:EC; [|(repeat split; auto; exact EC)].
  destruct (ca_lookup (d, u, f) (ca s v)) as [ans|] eqn:EL.
  - split; [|(repeat split; auto; exact EC)]. symmetry. exact (C v (d, u, f) ans EL).
  - destruct (neighbors_pure filt s v d u f) as [nbs|e] eqn:EN; [|(repeat split; auto; exact EC)].
    split; [reflexivity|]. split; [|(repeat split; auto; exact EC)].
    intros w k ans H.
    assert (R : neighbors_pure filt (set_ca s v (ca_store (d, u, f) nbs (ca s v))) w (fst (fst k)) (snd (fst k)) (snd k)
              = neighbors_pure filt s w (fst (fst k)) (snd (fst k)) (snd k)).
    { apply neighbors_pure_footprint; [reflexivity|]. intros; split; reflexivity. }
    rewrite R. clear R.
    destruct (Nat.eq_dec w v) as [->|N].
    + rewrite ca_set_ca_same in H by auto.
      destruct (ckey_dec k (d, u, f)) as [->|Nk].
      * rewrite ca_lookup_store_same in H. inversion H; subst. exact EN.
      * rewrite ca_lookup_store_other in H by exact Nk. now apply C.
    + rewrite ca_set_ca_other in H by congruence. now apply C.
Qed.

(* ====================================================================================== *)
(* 3. every mutator keeps coherence                                                       *)
(* ====================================================================================== *)

(* 3.0 the transfer principle: a memo that survived has an unchanged footprint *)
Definition frame (s s' : state) : Prop :=
  forall w, ca s' w = [] \/
    (ca s' w = ca s w /\ vl s' w = vl s w /\
     forall l, In l (vl s w) -> lv s' l = lv s l /\ kd s' l = kd s l).

Theorem Coh_transfer filt s s' : Coh filt s ->
  (forall w, ca s' w = [] \/
     (ca s' w = ca s w /\ vl s' w = vl s w /\
      forall l, In l (vl s w) -> lv s' l = lv s l /\ kd s' l = kd s l)) ->
  Coh filt s'.
Proof.
  intros C F w k ans H. destruct (F w) as [E|(Ec & Ev & Hl)].
  - rewrite E in H. discriminate.
  - rewrite Ec in H. rewrite (neighbors_pure_footprint filt s s' w Ev Hl). now apply C.
Qed.

Lemma frame_refl s : frame s s.
Proof. intro w. right. repeat split; reflexivity. Qed.
Lemma frame_trans s1 s2 s3 : frame s1 s2 -> frame s2 s3 -> frame s1 s3.
Proof.
  intros F1 F2 w. destruct (F2 w) as [E|(Ec & Ev & Hl)]; [now left|].
  destruct (F1 w) as [E1|(Ec1 & Ev1 & Hl1)]; [left; congruence|].
  right. split; [congruence|]. split; [congruence|].
  intros l Hl'. destruct (Hl1 l Hl') as [A1 B1].
  assert (Hl2 : In l (vl s2 w)) by (rewrite Ev1; exact Hl').
  destruct (Hl l Hl2) as [A2 B2]. split; congruence.
Qed.

(* 3.1 invalidation empties exactly the named memos (no side condition: a memo beyond the heap reads []) *)
Lemma get_set_nil {A} (h : list (list A)) : forall i, get [] i (set i [] h) = [].
Proof.
  unfold get. induction h as [|x h IH]; intros [|i]; try reflexivity. exact (IH i).
Qed.
Lemma ca_inval s v w : ca (inval s v) w = if Nat.eqb w v then [] else ca s w.
Proof.
  destruct (Nat.eqb_spec w v) as [->|N].
  - unfold ca, inval, set_ca; cbn [cache]. apply get_set_nil.
  - apply ca_set_ca_other. congruence.
Qed.
Lemma ca_inval_all xs : forall s w, ca (inval_all s xs) w = if memo (Some w) xs then [] else ca s w.
Proof.
  induction xs as [|[x|] r IH]; intros s w; cbn [inval_all].
  - reflexivity.
  - rewrite IH, ca_inval. unfold memo. cbn [existsb oeqb].
    destruct (Nat.eqb w x); cbn [orb]; [destruct (existsb _ r); reflexivity|reflexivity].
  - rewrite IH. reflexivity.
Qed.
Lemma ca_inval_all_in xs s w : In (Some w) xs -> ca (inval_all s xs) w = [].
Proof. intro H. rewrite ca_inval_all. apply memo_In in H. now rewrite H. Qed.

(* memos are only ever emptied *)
Definition cmono (s s' : state) : Prop := forall w, ca s' w = [] \/ ca s' w = ca s w.
Lemma cmono_refl s : cmono s s. Proof. intro; now right. Qed.
Lemma cmono_trans s1 s2 s3 : cmono s1 s2 -> cmono s2 s3 -> cmono s1 s3.
Proof. intros A B w. destruct (B w) as [E|E]; [now left|]. destruct (A w) as [E1|E1]; [left|right]; congruence. Qed.
Lemma cmono_set_vl s0 s v x : cmono s0 s -> cmono s0 (set_vl s v x). Proof. exact (fun H => H). Qed.
Lemma cmono_set_lv s0 s v x : cmono s0 s -> cmono s0 (set_lv s v x). Proof. exact (fun H => H). Qed.
Lemma cmono_inval s0 s v : cmono s0 s -> cmono s0 (inval s v).
Proof. intros H w. rewrite ca_inval. destruct (Nat.eqb w v); [now left|apply H]. Qed.
Lemma cmono_inval_all s0 s xs : cmono s0 s -> cmono s0 (inval_all s xs).
Proof. intros H w. rewrite ca_inval_all. destruct (memo _ _); [now left|apply H]. Qed.

Ltac ifs := repeat match goal with |- context [if ?b then _ else _] => destruct b eqn:? end.
Ltac cmono_tac := repeat first [apply cmono_inval | apply cmono_inval_all | apply cmono_set_vl | apply cmono_set_lv];
  try assumption.

Lemma cmono_r_v_add_to_link s0 s v l : cmono s0 s -> cmono s0 (r_v_add_to_link s v l).
Proof. intro H. unfold r_v_add_to_link. ifs; cmono_tac. Qed.
Lemma cmono_r_l_add_vertex s0 s l ov : cmono s0 s -> cmono s0 (r_l_add_vertex s l ov).
Proof. intro H. unfold r_l_add_vertex. destruct ov; ifs; cmono_tac. Qed.
Lemma cmono_r_v_remove_from_link s0 s v l : cmono s0 s -> cmono s0 (r_v_remove_from_link s v l).
Proof. intro H. unfold r_v_remove_from_link. ifs; cmono_tac. Qed.
Lemma cmono_r_l_unlink_from s0 s l ov : cmono s0 s -> cmono s0 (r_l_unlink_from s l ov).
Proof. intro H. unfold r_l_unlink_from. destruct ov; ifs; cmono_tac. Qed.

(* 3.2 the principle for an edit around one link l: whoever's link list changed, and (when the
   end list of l changed) whoever was named by l, has an empty memo afterwards *)
Lemma frame_link_edit s s' l :
  assoc s -> cmono s s' ->
  (forall i, kd s' i = kd s i) ->
  (forall k, k <> l -> lv s' k = lv s k) ->
  (forall w, vl s' w = vl s w \/ ca s' w = []) ->
  (lv s' l = lv s l \/ forall w, In (Some w) (lv s l) -> ca s' w = []) ->
  frame s s'.
Proof.
  intros A M K L V E w.
  destruct (M w) as [H|Hc]; [now left|].
  destruct (V w) as [Hv|H]; [|now left].
  destruct E as [El|E].
  - right. split; [exact Hc|split; [exact Hv|]]. intros k Hk. split; [|apply K].
    destruct (Nat.eq_dec k l) as [->|Nk]; auto.
  - destruct (memn l (vl s w)) eqn:Em.
    + left. apply E. apply A. now apply memn_In.
    + right. split; [exact Hc|split; [exact Hv|]]. intros k Hk. split; [|apply K].
      apply L. intros ->. apply memn_nIn in Em. contradiction.
Qed.

(* 3.3 the five reference link edits *)

Lemma frame_r_v_add_to_link s v l : wf s -> link_inv s -> v < next s -> l < next s ->
  frame s (r_v_add_to_link s v l).
Proof.
  intros W [A Nd] Hv Hl. apply (frame_link_edit s _ l A).
  - apply cmono_r_v_add_to_link, cmono_refl.
  - intro i. unfold r_v_add_to_link. ifs; srw; reflexivity.
  - intros k Nk. unfold r_v_add_to_link. ifs; srw; try reflexivity.
    rewrite lv_set_lv_other by congruence. srw. reflexivity.
  - intro w. destruct (Nat.eq_dec w v) as [->|N].
    + right. unfold r_v_add_to_link. ifs; rewrite ca_inval, Nat.eqb_refl; reflexivity.
    + left. unfold r_v_add_to_link. ifs; srw; rewrite ?vl_set_vl_other by congruence; reflexivity.
  - unfold r_v_add_to_link. destruct (memn _ _); [left; srw; reflexivity|].
    destruct (memo _ _); [left; srw; reflexivity|]. right. intros w Hw.
    rewrite ca_inval. destruct (Nat.eqb w v); auto. apply ca_inval_all_in.
    srw. rewrite lv_set_lv_same by (auto with st). apply in_or_app. now left.
Qed.

Lemma frame_r_l_add_vertex s l ov : wf s -> link_inv s -> l < next s ->
  frame s (r_l_add_vertex s l ov).
Proof.
  intros W [A Nd] Hl.
  assert (L1 : lv (set_lv s l (lv s l ++ [ov])) l = lv s l ++ [ov]) by (apply lv_set_lv_same; auto).
  apply (frame_link_edit s _ l A).
  - apply cmono_r_l_add_vertex, cmono_refl.
  - intro i. unfold r_l_add_vertex. destruct ov; ifs; srw; reflexivity.
  - intros k Nk. unfold r_l_add_vertex. destruct ov; ifs; srw; rewrite lv_set_lv_other by congruence; reflexivity.
  - intro w. unfold r_l_add_vertex. destruct ov as [v|]; ifs; srw; auto.
    destruct (Nat.eq_dec w v) as [->|N].
    + right. apply ca_inval_all_in. srw. rewrite L1. apply in_or_app. right. now left.
    + left. rewrite vl_set_vl_other by congruence. srw. reflexivity.
  - right. intros w Hw. unfold r_l_add_vertex. destruct ov as [v|]; ifs; apply ca_inval_all_in; srw; rewrite L1;
      apply in_or_app; now left.
Qed.

Lemma in_orem_or v w X : In (Some w) X -> In (Some w) (oremove_all (Some v) X ++ [Some v]).
Proof.
  intro H. apply in_or_app. destruct (Nat.eq_dec w v) as [->|N]; [right; now left|left].
  apply in_oremove_all. split; [exact H|congruence].
Qed.

Lemma frame_r_l_unlink_from s l ov : wf s -> link_inv s -> l < next s ->
  frame s (r_l_unlink_from s l ov).
Proof.
  intros W [A Nd] Hl. unfold r_l_unlink_from.
  destruct (memo ov (lv s l)) eqn:Em; [|apply frame_refl].
  set (s1 := set_lv s l (oremove1 ov (lv s l))).
  assert (W1 : wf s1) by (subst s1; auto with st).
  assert (L1 : lv s1 l = oremove1 ov (lv s l)) by (subst s1; apply lv_set_lv_same; auto).
  assert (L1o : forall k, k <> l -> lv s1 k = lv s k) by (intros k Nk; subst s1; apply lv_set_lv_other; congruence).
  destruct ov as [v|].
  2:{ apply (frame_link_edit s _ l A).
      - cmono_tac. apply cmono_refl.
      - intro i. srw. reflexivity.
      - intros k Nk. srw. now apply L1o.
      - intro w. left. srw. reflexivity.
      - right. intros w Hw. apply ca_inval_all_in. srw. rewrite L1. apply in_oremove1_neq; [discriminate|exact Hw]. }
  set (s2 := set_lv s1 l (oremove_all (Some v) (lv s1 l))).
  assert (L2 : lv s2 l = oremove_all (Some v) (lv s l)).
  { subst s2. rewrite lv_set_lv_same by (auto; subst s1; srw; auto). rewrite L1. apply oremove_all_oremove1. }
  assert (L2o : forall k, k <> l -> lv s2 k = lv s k).
  { intros k Nk. subst s2. rewrite lv_set_lv_other by congruence. now apply L1o. }
  assert (V2 : forall w, vl s2 w = vl s w) by (intro; subst s2 s1; srw; reflexivity).
  set (s3 := if memn l (vl s2 v) then inval (set_vl s2 v (remove1 l (vl s2 v))) v else inval s2 v).
  assert (L3 : forall k, lv s3 k = lv s2 k) by (intro; subst s3; ifs; srw; reflexivity).
  apply (frame_link_edit s _ l A).
  - apply cmono_inval_all. subst s3. ifs; cmono_tac; apply cmono_refl.
  - intro i. subst s3. ifs; srw; reflexivity.
  - intros k Nk. srw. rewrite L3. now apply L2o.
  - intro w. destruct (Nat.eq_dec w v) as [->|N].
    + right. apply ca_inval_all_in. apply in_or_app. right. now left.
    + left. srw. subst s3. ifs; srw; rewrite ?vl_set_vl_other by congruence; apply V2.
  - right. intros w Hw. apply ca_inval_all_in. rewrite L3, L2. now apply in_orem_or.
Qed.

Lemma frame_r_v_remove_from_link s v l : wf s -> link_inv s -> v < next s -> l < next s ->
  frame s (r_v_remove_from_link s v l).
Proof.
  intros W [A Nd] Hv Hl. unfold r_v_remove_from_link.
  destruct (memn l (vl s v)) eqn:Em.
  2:{ apply (frame_link_edit s _ l A).
      - cmono_tac. apply cmono_refl.
      - reflexivity.
      - reflexivity.
      - intro; now left.
      - now left. }
  set (s0 := set_vl s v (remove1 l (vl s v))).
  assert (W0 : wf s0) by (subst s0; auto with st).
  assert (V0 : forall w, w <> v -> vl s0 w = vl s w) by (intros w N; subst s0; apply vl_set_vl_other; congruence).
  destruct (memo (Some v) (lv s0 l)) eqn:Em2.
  2:{ apply (frame_link_edit s _ l A).
      - cmono_tac. apply cmono_refl.
      - reflexivity.
      - reflexivity.
      - intro w. destruct (Nat.eq_dec w v) as [->|N].
        + right. rewrite ca_inval, Nat.eqb_refl. reflexivity.
        + left. srw. now apply V0.
      - left. reflexivity. }
  set (s1 := set_lv s0 l (oremove1 (Some v) (lv s0 l))).
  assert (W1 : wf s1) by (subst s1; auto with st).
  assert (L1 : lv s1 l = oremove1 (Some v) (lv s l)) by (subst s1; rewrite lv_set_lv_same by auto; reflexivity).
  set (s2 := set_lv s1 l (oremove_all (Some v) (lv s1 l))).
  assert (L2 : lv s2 l = oremove_all (Some v) (lv s l)).
  { subst s2. rewrite lv_set_lv_same by (auto; subst s1 s0; srw; auto). rewrite L1. apply oremove_all_oremove1. }
  assert (L2o : forall k, k <> l -> lv s2 k = lv s k).
  { intros k Nk. subst s2 s1. rewrite !lv_set_lv_other by congruence. reflexivity. }
  apply (frame_link_edit s _ l A).
  - cmono_tac. apply cmono_refl.
  - intro i. srw. reflexivity.
  - intros k Nk. srw. now apply L2o.
  - intro w. destruct (Nat.eq_dec w v) as [->|N].
    + right. rewrite ca_inval, Nat.eqb_refl. reflexivity.
    + left. srw. subst s2 s1. srw. now apply V0.
  - right. intros w Hw. rewrite ca_inval. destruct (Nat.eqb w v); [reflexivity|].
    apply ca_inval_all_in. srw. rewrite L2. now apply in_orem_or.
Qed.

Lemma frame_r_l_set_end s l idx new : wf s -> link_inv s -> l < next s -> idx <= 1 ->
  (forall v, new = Some v -> v < next s) ->
  frame s (res_state (r_l_set_end s l idx new)).
Proof.
  intros W I Hl Hidx Hnew.
  destruct (lv1 s l) as [e1|] eqn:E1.
  2:{ unfold r_l_set_end. rewrite E1. apply frame_refl. }
  destruct (lv2 s l) as [e2|] eqn:E2.
  2:{ unfold r_l_set_end. rewrite E1, E2. apply frame_refl. }
  destruct (r_l_set_end_reads s l idx new e1 e2 W I Hl Hidx Hnew E1 E2) as (s' & E & Ho & L & V & N & K).
  rewrite E. cbn [res_state].
  unfold r_l_set_end in E. rewrite E1, E2 in E. injection E as E.
  set (X := lv s l) in *. set (old := if Nat.eqb idx 0 then e1 else e2) in *.
  assert (Hlen : idx < length X) by (apply nth_error_Some; congruence).
  assert (Hold : In old [e1; e2]) by (subst old; destruct (Nat.eqb idx 0); cbn; auto).
  match type of E with inval_all ?t _ = _ => set (s3 := t) in * end.
  assert (M : cmono s s').
  { rewrite <- E. apply cmono_inval_all. subst s3.
    assert (M2 : cmono s (match old with
                          | Some ov => if memo (Some ov) (lv (set_lv s l (set idx new X)) l)
                                       then set_lv s l (set idx new X)
                                       else r_v_remove_from_link (set_lv s l (set idx new X)) ov l
                          | None => set_lv s l (set idx new X) end)).
    { destruct old; ifs; try apply cmono_r_v_remove_from_link; apply cmono_set_lv, cmono_refl. }
    destruct new; ifs; try apply cmono_r_v_add_to_link; exact M2. }
  assert (L3 : lv s3 l = set idx new X).
  { pose proof (L l) as Ll. rewrite <- E, lv_inval_all, Nat.eqb_refl in Ll. exact Ll. }
  assert (CL : forall w, In (Some w) (set idx new X ++ [e1; e2]) -> ca s' w = []).
  { intros w Hw. rewrite <- E. apply ca_inval_all_in. now rewrite L3. }
  apply (frame_link_edit s s' l (proj1 I) M K).
  - intros k Nk. rewrite L. destruct (Nat.eqb_spec k l); [contradiction|reflexivity].
  - intro w. rewrite V.
    destruct (oeqb (Some w) old && negb (memo old (set idx new X))) eqn:D1.
    { right. apply andb_true_iff in D1 as [D1 _]. apply oeqb_eq in D1. apply CL, in_or_app. right. now rewrite D1. }
    destruct (oeqb (Some w) new && negb (memn l (vl s w))) eqn:D2; [|now left].
    right. apply andb_true_iff in D2 as [D2 _]. apply oeqb_eq in D2. apply CL, in_or_app. left.
    rewrite D2. now apply in_set_new.
  - right. intros w Hw. apply CL, in_or_app.
    destruct (oeqb (Some w) old) eqn:D.
    + right. apply oeqb_eq in D. now rewrite D.
    + left. apply in_set_keep; [exact Hw|]. rewrite Ho. intros [= D']. apply oeqb_neq in D. congruence.
Qed.


(* 3.4 allocation, and the operations that never touch vlinks / lverts / kind / cache *)
Lemma ca_outside s i : wf s -> next s <= i -> ca s i = [].
Proof. intros W H. unfold ca. apply get_default. wf_crush. Qed.
Lemma ca_alloc_all s k w : wf s -> ca (alloc k s) w = ca s w.
Proof.
  intro W. destruct (Nat.lt_ge_cases w (next s)) as [Hlt|Hge]; [now apply ca_alloc_old|].
  rewrite (ca_outside s w) by auto.
  destruct (Nat.eq_dec w (next s)) as [->|N].
  - unfold ca, alloc; cbn [cache]. destruct W as (_ & _ & _ & _ & _ & _ & H0). rewrite <- H0. apply get_app_new.
  - apply ca_outside; [auto with st|]. rewrite next_alloc. lia.
Qed.
Lemma frame_alloc s k : wf s -> link_inv s -> frame s (alloc k s).
Proof.
  intros W I w. right. split; [now apply ca_alloc_all|]. split; [now apply vl_alloc_all|].
  intros l Hl. split; [now apply lv_alloc_all|]. apply kd_alloc_old; auto. now apply (link_inv_valid' s w l).
Qed.

Definition same4 (s s' : state) : Prop :=
  vlinks s' = vlinks s /\ lverts s' = lverts s /\ kind s' = kind s /\ cache s' = cache s.
Lemma same4_refl s : same4 s s. Proof. repeat split. Qed.
Lemma same4_trans s1 s2 s3 : same4 s1 s2 -> same4 s2 s3 -> same4 s1 s3.
Proof. intros (A1 & B1 & C1 & D1) (A2 & B2 & C2 & D2). repeat split; congruence. Qed.
Lemma same4_frame s s' : same4 s s' -> frame s s'.
Proof.
  intros (A & B & C & D) w. right. unfold ca, vl, lv, kd. rewrite A, B, C, D.
  split; [reflexivity|]. split; [reflexivity|]. intros; split; reflexivity.
Qed.
Ltac same4_tac := repeat match goal with
  | |- context [if ?b then _ else _] => destruct b
  | |- context [match ?x with Some _ => _ | None => _ end] => destruct x
  end; cbn [res_state]; repeat split.
Lemma same4_r_u_add_vertex s u v : same4 s (res_state (r_u_add_vertex s u v)).
Proof. unfold r_u_add_vertex. same4_tac. Qed.
Lemma same4_r_v_add_to_universe s v u : same4 s (res_state (r_v_add_to_universe s v u)).
Proof. unfold r_v_add_to_universe. same4_tac. Qed.
Lemma same4_r_u_remove_vertex s u v : same4 s (res_state (r_u_remove_vertex s u v)).
Proof. unfold r_u_remove_vertex. same4_tac. Qed.
Lemma same4_r_v_remove_from_universe s v u : same4 s (res_state (r_v_remove_from_universe s v u)).
Proof. unfold r_v_remove_from_universe. same4_tac. Qed.
Lemma same4_r_set_laws s u oL : same4 s (r_set_laws s u oL).
Proof. unfold r_set_laws, r_detach_la, r_detach_ul. same4_tac. Qed.
Lemma same4_r_set_applies s L ou : same4 s (r_set_applies s L ou).
Proof. unfold r_set_applies, r_detach_la, r_detach_ul. same4_tac. Qed.
Lemma same4_seq_res f xs : (forall s x, same4 s (res_state (f s x))) ->
  forall s, same4 s (res_state (seq_res f xs s)).
Proof.
  intro Hf. induction xs as [|x r IH]; intro s; cbn [seq_res]; [apply same4_refl|].
  pose proof (Hf s x) as H. destruct (f s x) as [s1|e s1]; cbn [bind res_state] in *.
  - eapply same4_trans; [exact H|apply IH].
  - exact H.
Qed.

(* 3.5 the loops and the constructors *)
Lemma frame_nv_links v : forall ls s, wf s -> link_inv s -> v < next s -> (forall l, In l ls -> l < next s) ->
  frame s (fold_left (fun s l => r_v_add_to_link s v l) ls s).
Proof.
  induction ls as [|l ls IH]; intros s W I Hv Hls; cbn [fold_left]; [apply frame_refl|].
  assert (Hl : l < next s) by (apply Hls; now left).
  destruct (vadd_eq s v l W Hv Hl) as (_ & W1 & N1).
  eapply frame_trans; [apply (frame_r_v_add_to_link s v l W I Hv Hl)|].
  apply IH; auto.
  - now apply r_v_add_to_link_inv.
  - now rewrite N1.
  - intros k Hk. rewrite N1. apply Hls. now right.
Qed.

Lemma frame_unlink_fold a b : forall links s, wf s -> link_inv s -> a < next s -> b < next s ->
  (forall l, In l links -> l < next s) ->
  frame s (fold_left (fun s l => r_l_unlink_from (r_l_unlink_from s l (Some a)) l (Some b)) links s).
Proof.
  induction links as [|l links IH]; intros s W I Ha Hb Hls; cbn [fold_left]; [apply frame_refl|].
  assert (Hl : l < next s) by (apply Hls; now left).
  set (t := r_l_unlink_from s l (Some a)).
  destruct (lunl_eq s l (Some a) W Hl) as (_ & Wt & Nt). { intros v [= <-]. exact Ha. } fold t in Wt, Nt.
  assert (It : link_inv t) by (apply r_l_unlink_from_inv; auto; intros v [= <-]; exact Ha).
  set (s1 := r_l_unlink_from t l (Some b)).
  destruct (lunl_eq t l (Some b) Wt) as (_ & W1 & N1). { now rewrite Nt. } { intros v [= <-]. now rewrite Nt. }
  fold s1 in W1, N1.
  assert (I1 : link_inv s1).
  { apply r_l_unlink_from_inv; auto; [now rewrite Nt|]. intros v [= <-]. now rewrite Nt. }
  eapply frame_trans; [apply (frame_r_l_unlink_from s l (Some a)); auto|]. fold t.
  eapply frame_trans; [apply (frame_r_l_unlink_from t l (Some b)); auto; now rewrite Nt|]. fold s1.
  apply IH; auto; rewrite ?N1, ?Nt; auto. intros k Hk. apply Hls. now right.
Qed.

Lemma frame_r_new_edge s k a b : wf s -> link_inv s ->
  (forall i, a = Some i -> i < next s) -> (forall i, b = Some i -> i < next s) ->
  frame s (res_state (fst (r_new_edge s k a b))).
Proof.
  intros W I Ha Hb. unfold r_new_edge. destruct (_ || _); cbn [fst res_state]; [apply frame_refl|].
  set (s0 := alloc k s).
  assert (W0 : wf s0) by (subst s0; auto with st).
  assert (I0 : link_inv s0) by (subst s0; now apply link_inv_alloc).
  assert (N0 : next s0 = S (next s)) by apply next_alloc.
  assert (Hl : next s < next s0) by lia.
  assert (Ha0 : forall v, a = Some v -> v < next s0) by (intros v Hv; specialize (Ha v Hv); lia).
  assert (Hb0 : forall v, b = Some v -> v < next s0) by (intros v Hv; specialize (Hb v Hv); lia).
  destruct (ladd_eq s0 (next s) a W0 Hl Ha0) as (_ & W1 & N1).
  assert (I1 : link_inv (r_l_add_vertex s0 (next s) a)) by now apply r_l_add_vertex_inv.
  eapply frame_trans; [apply (frame_alloc s k W I)|]. fold s0.
  eapply frame_trans; [apply (frame_r_l_add_vertex s0 (next s) a W0 I0 Hl)|].
  apply frame_r_l_add_vertex; auto. now rewrite N1.
Qed.

Lemma fst_let (p : res * outcome) : fst (let '(r, out) := p in (res_state r, out)) = res_state (fst p).
Proof. destruct p; reflexivity. Qed.

(* 3.6 every operation of the reference model *)
Lemma frame_r_step s o : wf s -> link_inv s -> frame s (fst (r_step s o)).
Proof.
  intros W I. unfold r_step. destruct (well_typed s o) eqn:WT; cbn [negb]; [|apply frame_refl].
  destruct o as [sub us ls|vs oL|ou|k a b|l ov|l ov|v l|v l|l ov|l ov|a k b dontdup|a b destroy
                |u v|u v|v u|v u|u oL|L ou|fl]; cbn [well_typed] in WT.
  - (* NewVertex *)
    apply andb_true_iff in WT as [WT1 WT2]. cbv zeta. rewrite fst_ok_or.
    set (K := if sub then KVertexSub else KVertex).
    set (v := next s). set (s0 := set_vu (alloc K s) v (dedup us)).
    assert (W0 : wf s0) by (subst s0; auto with st).
    assert (N0 : next s0 = S (next s)) by (subst s0; rewrite next_set_vu; apply next_alloc).
    assert (I0 : link_inv s0).
    { apply (same_links_inv (alloc K s)); [split; reflexivity|]. now apply link_inv_alloc. }
    eapply frame_trans; [apply (frame_alloc s K W I)|].
    eapply frame_trans; [apply (same4_frame (alloc K s) s0); repeat split|].
    eapply frame_trans.
    + apply (frame_nv_links v ls s0 W0 I0); [subst v; lia|].
      intros l Hl. pose proof (forallb_isl_lt _ _ WT2 l Hl). lia.
    + apply same4_frame, same4_seq_res. intros. apply same4_r_u_add_vertex.
  - (* NewUniverse *)
    cbv zeta. rewrite fst_ok_or.
    set (s0 := alloc KUniverse s).
    assert (W0 : wf s0) by (subst s0; auto with st).
    assert (I0 : link_inv s0) by (subst s0; now apply link_inv_alloc).
    eapply frame_trans; [apply (frame_alloc s KUniverse W I)|]. fold s0.
    eapply frame_trans; [|apply same4_frame, same4_seq_res; intros; apply same4_r_u_add_vertex].
    destruct oL as [L|].
    + apply same4_frame, same4_r_set_laws.
    + eapply frame_trans; [apply (frame_alloc s0 KLaws W0 I0)|]. apply same4_frame. repeat split.
  - (* NewLaws *)
    cbn [fst res_state]. eapply frame_trans; [apply (frame_alloc s KLaws W I)|]. apply same4_frame. repeat split.
  - (* NewEdge *)
    apply andb_true_iff in WT as [WT WTb]. apply andb_true_iff in WT as [WTk WTa].
    rewrite fst_let. apply frame_r_new_edge; auto; intros i ->; now apply valid_lt.
  - (* SetV1 *) wt_facts. rewrite fst_ok_or. apply frame_r_l_set_end; auto.
  - (* SetV2 *) wt_facts. rewrite fst_ok_or. apply frame_r_l_set_end; auto.
  - wt_facts. cbn [fst res_state]. now apply frame_r_v_add_to_link.
  - wt_facts. cbn [fst res_state]. now apply frame_r_v_remove_from_link.
  - wt_facts. cbn [fst res_state]. now apply frame_r_l_add_vertex.
  - wt_facts. cbn [fst res_state]. now apply frame_r_l_unlink_from.
  - (* LinkFromTo *)
    wt_facts. destruct (if dontdup then _ else _) as [[l|]|]; [apply frame_refl| |apply frame_refl].
    rewrite fst_let. apply frame_r_new_edge; auto; intros i [= <-]; auto.
  - (* Unlink *)
    wt_facts. destruct (find_links _ s a b false UErr None) as [links|e] eqn:EF; [|apply frame_refl].
    cbn [fst res_state]. apply frame_unlink_fold; auto.
    intros l Hl. eapply find_links_sub in Hl; [|exact EF]. now apply (link_inv_valid' s a l).
  - rewrite fst_ok_or. apply same4_frame, same4_r_u_add_vertex.
  - rewrite fst_ok_or. apply same4_frame, same4_r_u_remove_vertex.
  - rewrite fst_ok_or. apply same4_frame, same4_r_v_add_to_universe.
  - rewrite fst_ok_or. apply same4_frame, same4_r_v_remove_from_universe.
  - cbn [fst res_state]. apply same4_frame, same4_r_set_laws.
  - cbn [fst res_state]. apply same4_frame, same4_r_set_applies.
  - cbn [fst res_state]. apply same4_frame. repeat split.
Qed.

Theorem Coh_step : forall filt s o, Inv s -> (forall u, o <> NewLaws (Some u)) ->
  Coh filt s -> Coh filt (fst (step s o)).
Proof.
  intros filt s o HI NL C. rewrite (step_refines s o HI NL).
  destruct HI as (W & I & _ & _). apply (Coh_transfer filt s); [exact C|]. now apply frame_r_step.
Qed.

(* ====================================================================================== *)
(* 4. histories: the invariant and coherence hold at every point                           *)
(* ====================================================================================== *)
Lemma Inv_set_ca s v x : Inv s -> Inv (set_ca s v x).
Proof.
  intros (W & I & U & LI). split; [auto with st|]. split; [|split].
  - apply (link_inv_ext s); [reflexivity|reflexivity|exact I].
  - exact U.
  - exact LI.
Qed.

Lemma neighbors_c_state filt s v d u f :
  fst (neighbors_c filt s v d u f) = s \/
  exists x, fst (neighbors_c filt s v d u f) = set_ca s v x.
Proof.
  unfold neighbors_c. destruct (caching s); [|now left].
  destruct (ca_lookup _ _); [now left|]. destruct (neighbors_pure _ _ _ _ _ _); [right; eexists; reflexivity|now left].
Qed.

Lemma cstep_query_state filt s v d u f :
  fst (cstep filt s (CNb v d u f)) = s \/ exists x, fst (cstep filt s (CNb v d u f)) = set_ca s v x.
Proof.
  cbn [cstep]. destruct (negb (isv s v)); [now left|].
  pose proof (neighbors_c_state filt s v d u f) as H.
  destruct (neighbors_c filt s v d u f) as [s' r]. exact H.
Qed.

Theorem Inv_query filt s v d u f : Inv s -> Inv (fst (cstep filt s (CNb v d u f))).
Proof.
  intro HI. destruct (cstep_query_state filt s v d u f) as [->|[x ->]]; [exact HI|now apply Inv_set_ca].
Qed.

Lemma Coh_query_step filt s v d u f : wf s -> Coh filt s -> Coh filt (fst (cstep filt s (CNb v d u f))).
Proof.
  intros W C. cbn [cstep]. destruct (isv s v) eqn:Hv; cbn [negb]; [|exact C].
  pose proof (Coh_query filt s v d u f W C Hv) as H.
  destruct (neighbors_c filt s v d u f) as [s' r]. cbn [fst]. apply H.
Qed.

Definition no_new_laws (cs : list cop) : Prop := forall o u, In (CMut o) cs -> o <> NewLaws (Some u).

Lemma cstep_pres filt s c : Inv s -> Coh filt s -> (forall o u, c = CMut o -> o <> NewLaws (Some u)) ->
  Inv (fst (cstep filt s c)) /\ Coh filt (fst (cstep filt s c)).
Proof.
  intros HI C NL. destruct c as [o|v d u f].
  - assert (NLo : forall u, o <> NewLaws (Some u)) by (intro u; now apply NL).
    cbn [cstep]. split; [now apply Inv_step|now apply Coh_step].
  - split; [now apply Inv_query|]. apply Coh_query_step; [apply HI|exact C].
Qed.

Lemma crun_pres filt : forall cs s, Inv s -> Coh filt s -> no_new_laws cs ->
  Inv (crun filt cs s) /\ Coh filt (crun filt cs s).
Proof.
  induction cs as [|c cs IH]; intros s HI C NL; cbn [crun fold_left]; [auto|].
  destruct (cstep_pres filt s c HI C) as [HI' C'].
  { intros o u ->. apply NL. now left. }
  apply IH; auto. intros o u Ho. apply NL. now right.
Qed.

Lemma Coh_empty filt : Coh filt empty.
Proof. intros v k ans H. unfold ca, empty, get in H; cbn in H. destruct v; discriminate. Qed.

Theorem Coh_reachable : forall filt cs,
  (forall o u, In (CMut o) cs -> o <> NewLaws (Some u)) -> Coh filt (crun filt cs empty).
Proof. intros filt cs NL. apply crun_pres; [apply Inv_empty|apply Coh_empty|exact NL]. Qed.
Theorem Inv_reachable_c : forall filt cs,
  (forall o u, In (CMut o) cs -> o <> NewLaws (Some u)) -> Inv (crun filt cs empty).
Proof. intros filt cs NL. apply crun_pres; [apply Inv_empty|apply Coh_empty|exact NL]. Qed.

(* ====================================================================================== *)
(* 5. THE TRANSPARENCY THEOREM                                                            *)
(* ====================================================================================== *)
Theorem cached_answers_equal_recomputed : forall filt cs s, Inv s -> Coh filt s ->
  (forall o u, In (CMut o) cs -> o <> NewLaws (Some u)) ->
  forall pre v d u f post, cs = pre ++ CNb v d u f :: post ->
  isv (crun filt pre s) v = true ->
  snd (cstep filt (crun filt pre s) (CNb v d u f)) =
  match neighbors_pure filt (crun filt pre s) v d u f with
  | NOk l => Ret (VList l)
  | NErr e => Raised e
  end.
Proof.
  intros filt cs s HI C NL pre v d u f post E Hv.
  destruct (crun_pres filt pre s HI C) as [HI' C'].
  { intros o w Ho. apply NL. rewrite E. apply in_or_app. now left. }
  set (t := crun filt pre s) in *.
  cbn [cstep]. rewrite Hv. cbn [negb].
  pose proof (Coh_query filt t v d u f (proj1 HI') C' Hv) as H.
  destruct (neighbors_c filt t v d u f) as [s' r]. cbn [snd]. destruct H as [-> _]. reflexivity.
Qed.

(* from the empty heap *)
Corollary cached_answers_equal_recomputed_empty : forall filt cs,
  (forall o u, In (CMut o) cs -> o <> NewLaws (Some u)) ->
  forall pre v d u f post, cs = pre ++ CNb v d u f :: post ->
  isv (crun filt pre empty) v = true ->
  snd (cstep filt (crun filt pre empty) (CNb v d u f)) =
  match neighbors_pure filt (crun filt pre empty) v d u f with
  | NOk l => Ret (VList l)
  | NErr e => Raised e
  end.
Proof. intros filt cs NL. apply (cached_answers_equal_recomputed filt cs empty Inv_empty (Coh_empty filt) NL). Qed.

(* ====================================================================================== *)
(* 6. every outcome is independent of the flag                                            *)
(* ====================================================================================== *)
(* the observable part of the heap (everything but cache / caching), as a tuple *)
Definition obs (s : state) :=
  (kind s, vlinks s, lverts s, vunis s, uverts s, ulaws s, lapp s).
(* s with another memo table and another flag *)
Definition wcc (s : state) (c : list (list (ckey * list (option nat)))) (b : bool) : state :=
  {| kind := kind s; vlinks := vlinks s; lverts := lverts s; vunis := vunis s; uverts := uverts s;
     ulaws := ulaws s; lapp := lapp s; cache := c; caching := b |}.
Lemma to_wcc a b : obs a = obs b -> b = wcc a (cache b) (caching b).
Proof. destruct a, b. unfold obs, wcc. cbn. intros [= -> -> -> -> -> -> ->]. reflexivity. Qed.
Lemma obs_wcc s c b : obs (wcc s c b) = obs s. Proof. reflexivity. Qed.

Lemma vl_wcc s c b v : vl (wcc s c b) v = vl s v. Proof. reflexivity. Qed.
Lemma lv_wcc s c b v : lv (wcc s c b) v = lv s v. Proof. reflexivity. Qed.
Lemma kd_wcc s c b v : kd (wcc s c b) v = kd s v. Proof. reflexivity. Qed.
Lemma vu_wcc s c b v : vu (wcc s c b) v = vu s v. Proof. reflexivity. Qed.
Lemma uv_wcc s c b v : uv (wcc s c b) v = uv s v. Proof. reflexivity. Qed.
Lemma ul_wcc s c b v : ul (wcc s c b) v = ul s v. Proof. reflexivity. Qed.
Lemma la_wcc s c b v : la (wcc s c b) v = la s v. Proof. reflexivity. Qed.
Lemma next_wcc s c b : next (wcc s c b) = next s. Proof. reflexivity. Qed.
Lemma set_vl_wcc s c b v x : set_vl (wcc s c b) v x = wcc (set_vl s v x) c b. Proof. reflexivity. Qed.
Lemma set_lv_wcc s c b v x : set_lv (wcc s c b) v x = wcc (set_lv s v x) c b. Proof. reflexivity. Qed.
Lemma set_vu_wcc s c b v x : set_vu (wcc s c b) v x = wcc (set_vu s v x) c b. Proof. reflexivity. Qed.
Lemma set_uv_wcc s c b v x : set_uv (wcc s c b) v x = wcc (set_uv s v x) c b. Proof. reflexivity. Qed.
Lemma set_ul_wcc s c b v x : set_ul (wcc s c b) v x = wcc (set_ul s v x) c b. Proof. reflexivity. Qed.
Lemma set_la_wcc s c b v x : set_la (wcc s c b) v x = wcc (set_la s v x) c b. Proof. reflexivity. Qed.
Lemma inval_wcc s c b v : inval (wcc s c b) v = wcc (inval s v) (set v [] c) b. Proof. reflexivity. Qed.
Fixpoint ica (c : list (list (ckey * list (option nat)))) (xs : list (option nat)) :=
  match xs with [] => c | None :: r => ica c r | Some v :: r => ica (set v [] c) r end.
Lemma inval_all_wcc xs : forall s c b, inval_all (wcc s c b) xs = wcc (inval_all s xs) (ica c xs) b.
Proof.
  induction xs as [|[x|] r IH]; intros s c b; cbn [inval_all ica]; [reflexivity| |apply IH].
  rewrite inval_wcc. apply IH.
Qed.
Lemma alloc_wcc k s c b : alloc k (wcc s c b) = wcc (alloc k s) (c ++ [[]]) b. Proof. reflexivity. Qed.
#[local] Hint Rewrite vl_wcc lv_wcc kd_wcc vu_wcc uv_wcc ul_wcc la_wcc next_wcc set_vl_wcc set_lv_wcc set_vu_wcc
  set_uv_wcc set_ul_wcc set_la_wcc inval_wcc inval_all_wcc alloc_wcc : wcc.

Ltac cases := repeat match goal with
  | |- context [if ?b then _ else _] => destruct b eqn:?
  | |- context [match ?x with Some _ => _ | None => _ end] => destruct x eqn:?
  end.
Ltac wcc_tac := cbv zeta; repeat (progress (autorewrite with wcc; cases)); try reflexivity.

Definition robs (r : res) := match r with Ok s => (None, obs s) | Raise e s => (Some e, obs s) end.

Lemma sim_of_wcc (f : state -> state) :
  (forall s c b, obs (f (wcc s c b)) = obs (f s)) -> forall a b, obs a = obs b -> obs (f a) = obs (f b).
Proof. intros H a b E. rewrite (to_wcc a b E), H. reflexivity. Qed.
Lemma rsim_of_wcc (f : state -> res) :
  (forall s c b, robs (f (wcc s c b)) = robs (f s)) -> forall a b, obs a = obs b -> robs (f a) = robs (f b).
Proof. intros H a b E. rewrite (to_wcc a b E), H. reflexivity. Qed.

Lemma sim_r_v_add_to_link v l a b : obs a = obs b -> obs (r_v_add_to_link a v l) = obs (r_v_add_to_link b v l).
Proof. apply (sim_of_wcc (fun s => r_v_add_to_link s v l)). intros. unfold r_v_add_to_link. wcc_tac. Qed.
Lemma sim_r_l_add_vertex l ov a b : obs a = obs b -> obs (r_l_add_vertex a l ov) = obs (r_l_add_vertex b l ov).
Proof. apply (sim_of_wcc (fun s => r_l_add_vertex s l ov)). intros. unfold r_l_add_vertex. destruct ov; wcc_tac. Qed.
Lemma sim_r_v_remove_from_link v l a b : obs a = obs b ->
  obs (r_v_remove_from_link a v l) = obs (r_v_remove_from_link b v l).
Proof. apply (sim_of_wcc (fun s => r_v_remove_from_link s v l)). intros. unfold r_v_remove_from_link. wcc_tac. Qed.
Lemma sim_r_l_unlink_from l ov a b : obs a = obs b -> obs (r_l_unlink_from a l ov) = obs (r_l_unlink_from b l ov).
Proof. apply (sim_of_wcc (fun s => r_l_unlink_from s l ov)). intros. unfold r_l_unlink_from. destruct ov; wcc_tac. Qed.
Lemma sim_r_u_add_vertex u v a b : obs a = obs b -> robs (r_u_add_vertex a u v) = robs (r_u_add_vertex b u v).
Proof. apply (rsim_of_wcc (fun s => r_u_add_vertex s u v)). intros. unfold r_u_add_vertex. wcc_tac. Qed.
Lemma sim_r_v_add_to_universe v u a b : obs a = obs b -> robs (r_v_add_to_universe a v u) = robs (r_v_add_to_universe b v u).
Proof. apply (rsim_of_wcc (fun s => r_v_add_to_universe s v u)). intros. unfold r_v_add_to_universe. wcc_tac. Qed.
Lemma sim_r_u_remove_vertex u v a b : obs a = obs b -> robs (r_u_remove_vertex a u v) = robs (r_u_remove_vertex b u v).
Proof. apply (rsim_of_wcc (fun s => r_u_remove_vertex s u v)). intros. unfold r_u_remove_vertex. wcc_tac. Qed.
Lemma sim_r_v_remove_from_universe v u a b : obs a = obs b ->
  robs (r_v_remove_from_universe a v u) = robs (r_v_remove_from_universe b v u).
Proof. apply (rsim_of_wcc (fun s => r_v_remove_from_universe s v u)). intros. unfold r_v_remove_from_universe. wcc_tac. Qed.
Lemma sim_r_set_laws u oL a b : obs a = obs b -> obs (r_set_laws a u oL) = obs (r_set_laws b u oL).
Proof. apply (sim_of_wcc (fun s => r_set_laws s u oL)). intros. unfold r_set_laws, r_detach_la, r_detach_ul. destruct oL; wcc_tac. Qed.
Lemma sim_r_set_applies L ou a b : obs a = obs b -> obs (r_set_applies a L ou) = obs (r_set_applies b L ou).
Proof. apply (sim_of_wcc (fun s => r_set_applies s L ou)). intros. unfold r_set_applies, r_detach_la, r_detach_ul. destruct ou; wcc_tac. Qed.

(* reads under obs-equality *)
Section ObsReads.
  Variables a b : state.
  Hypothesis E : obs a = obs b.
  Lemma obs_fields : kind a = kind b /\ vlinks a = vlinks b /\ lverts a = lverts b /\ vunis a = vunis b /\
    uverts a = uverts b /\ ulaws a = ulaws b /\ lapp a = lapp b.
  Proof. unfold obs in E. injection E. auto 10. Qed.
  Lemma obs_vl v : vl a v = vl b v. Proof. unfold vl. now rewrite (proj1 (proj2 obs_fields)). Qed.
  Lemma obs_lv v : lv a v = lv b v. Proof. unfold lv. now rewrite (proj1 (proj2 (proj2 obs_fields))). Qed.
  Lemma obs_kd v : kd a v = kd b v. Proof. unfold kd. now rewrite (proj1 obs_fields). Qed.
  Lemma obs_vu v : vu a v = vu b v. Proof. unfold vu. now rewrite (proj1 (proj2 (proj2 (proj2 obs_fields)))). Qed.
  Lemma obs_next : next a = next b. Proof. unfold next. now rewrite (proj1 obs_fields). Qed.
  Lemma obs_well_typed o : well_typed a o = well_typed b o.
  Proof. rewrite (to_wcc a b E). reflexivity. Qed.
  Lemma obs_isv v : isv a v = isv b v.
  Proof. rewrite (to_wcc a b E). reflexivity. Qed.
  Lemma obs_other l e : other a l e = other b l e.
  Proof. unfold other, lv1, lv2. now rewrite obs_lv. Qed.
  Lemma obs_first_joining x y ls : first_joining a x y ls = first_joining b x y ls.
  Proof. induction ls as [|l r IH]; cbn [first_joining]; [reflexivity|]. rewrite obs_other, IH. reflexivity. Qed.
  Lemma obs_fl_link ffl x y ds u f l : fl_link ffl a x y ds u f l = fl_link ffl b x y ds u f l.
  Proof. unfold fl_link, is_end1, lv1. now rewrite obs_other, obs_kd, obs_lv. Qed.
  Lemma obs_fl_loop ffl x y ds u f ls : forall acc, fl_loop ffl a x y ds u f ls acc = fl_loop ffl b x y ds u f ls acc.
  Proof. induction ls as [|l r IH]; intro acc; cbn [fl_loop]; [reflexivity|]. rewrite obs_fl_link. destruct (fl_link _ _ _ _ _ _ _ _); auto. Qed.
  Lemma obs_find_links ffl x y ds u f : find_links ffl a x y ds u f = find_links ffl b x y ds u f.
  Proof. unfold find_links. rewrite obs_vl. apply obs_fl_loop. Qed.
  Lemma obs_neighbors_pure filt v d u f : neighbors_pure filt a v d u f = neighbors_pure filt b v d u f.
  Proof. apply neighbors_pure_footprint; [apply obs_vl|]. intros; split; [apply obs_lv|apply obs_kd]. Qed.
End ObsReads.

Lemma obs_inval s v : obs (inval s v) = obs s. Proof. reflexivity. Qed.
Lemma obs_inval_all xs : forall s, obs (inval_all s xs) = obs s.
Proof. induction xs as [|[x|] r IH]; intro s; cbn [inval_all]; auto. now rewrite IH. Qed.
Lemma sim_set_lv l x a b : obs a = obs b -> obs (set_lv a l x) = obs (set_lv b l x).
Proof. apply (sim_of_wcc (fun s => set_lv s l x)). reflexivity. Qed.
Lemma sim_set_vu l x a b : obs a = obs b -> obs (set_vu a l x) = obs (set_vu b l x).
Proof. apply (sim_of_wcc (fun s => set_vu s l x)). reflexivity. Qed.
Lemma sim_set_ul l x a b : obs a = obs b -> obs (set_ul a l x) = obs (set_ul b l x).
Proof. apply (sim_of_wcc (fun s => set_ul s l x)). reflexivity. Qed.
Lemma sim_set_la l x a b : obs a = obs b -> obs (set_la a l x) = obs (set_la b l x).
Proof. apply (sim_of_wcc (fun s => set_la s l x)). reflexivity. Qed.
Lemma sim_alloc k a b : obs a = obs b -> obs (alloc k a) = obs (alloc k b).
Proof. apply (sim_of_wcc (fun s => alloc k s)). reflexivity. Qed.

Lemma sim_r_l_set_end l idx new a b : obs a = obs b -> robs (r_l_set_end a l idx new) = robs (r_l_set_end b l idx new).
Proof.
  intro E. unfold r_l_set_end, lv1, lv2. rewrite (obs_lv a b E).
  destruct (nth_error (lv b l) 0) as [e1|]; [|cbn; now rewrite E].
  destruct (nth_error (lv b l) 1) as [e2|]; [|cbn; now rewrite E].
  cbv zeta. set (old := if Nat.eqb idx 0 then e1 else e2).
  set (X := set idx new (lv b l)).
  assert (E1 : obs (set_lv a l X) = obs (set_lv b l X)) by now apply sim_set_lv.
  set (a2 := match old with Some ov => if memo (Some ov) (lv (set_lv a l X) l) then set_lv a l X
                                       else r_v_remove_from_link (set_lv a l X) ov l | None => set_lv a l X end).
  set (b2 := match old with Some ov => if memo (Some ov) (lv (set_lv b l X) l) then set_lv b l X
                                       else r_v_remove_from_link (set_lv b l X) ov l | None => set_lv b l X end).
  assert (E2 : obs a2 = obs b2).
  { subst a2 b2. destruct old as [ov|]; [|exact E1]. rewrite (obs_lv _ _ E1).
    destruct (memo _ _); [exact E1|now apply sim_r_v_remove_from_link]. }
  set (a3 := match new with Some nv => if memn l (vl a2 nv) then a2 else r_v_add_to_link a2 nv l | None => a2 end).
  set (b3 := match new with Some nv => if memn l (vl b2 nv) then b2 else r_v_add_to_link b2 nv l | None => b2 end).
  assert (E3 : obs a3 = obs b3).
  { subst a3 b3. destruct new as [nv|]; [|exact E2]. rewrite (obs_vl _ _ E2).
    destruct (memn _ _); [exact E2|now apply sim_r_v_add_to_link]. }
  cbn [robs]. rewrite !obs_inval_all, E3. reflexivity.
Qed.

Lemma sim_fold {X} (g : state -> X -> state) :
  (forall x a b, obs a = obs b -> obs (g a x) = obs (g b x)) ->
  forall xs a b, obs a = obs b -> obs (fold_left g xs a) = obs (fold_left g xs b).
Proof. intro H. induction xs as [|x r IH]; intros a b E; cbn [fold_left]; auto. Qed.
Lemma sim_seq_res (g : state -> nat -> res) :
  (forall x a b, obs a = obs b -> robs (g a x) = robs (g b x)) ->
  forall xs a b, obs a = obs b -> robs (seq_res g xs a) = robs (seq_res g xs b).
Proof.
  intro H. induction xs as [|x r IH]; intros a b E; cbn [seq_res]; [cbn; now rewrite E|].
  pose proof (H x a b E) as Hx. destruct (g a x) as [a1|e1 a1], (g b x) as [b1|e2 b1]; cbn [robs bind] in *;
    try discriminate.
  - apply IH. congruence.
  - exact Hx.
Qed.
Lemma robs_ok_or R1 R2 V : robs R1 = robs R2 ->
  obs (fst (let '(r, out) := ok_or R1 V in (res_state r, out))) =
  obs (fst (let '(r, out) := ok_or R2 V in (res_state r, out))) /\
  snd (let '(r, out) := ok_or R1 V in (res_state r, out)) = snd (let '(r, out) := ok_or R2 V in (res_state r, out)).
Proof. destruct R1, R2; cbn; intro H; try discriminate; split; congruence. Qed.

Lemma sim_r_new_edge k x y a b : obs a = obs b ->
  obs (res_state (fst (r_new_edge a k x y))) = obs (res_state (fst (r_new_edge b k x y))) /\
  snd (r_new_edge a k x y) = snd (r_new_edge b k x y).
Proof.
  intro E. unfold r_new_edge.
  assert (Hbad : forall o, match o with Some i => negb (is_vertex (kd a i)) | None => false end =
                           match o with Some i => negb (is_vertex (kd b i)) | None => false end).
  { intros [i|]; [|reflexivity]. now rewrite (obs_kd a b E). }
  rewrite !Hbad. destruct (_ || _); cbn [fst snd res_state]; [auto|].
  rewrite (obs_next a b E). split; [|reflexivity].
  apply sim_r_l_add_vertex, sim_r_l_add_vertex, sim_alloc, E.
Qed.

Lemma r_step_sim a b o : obs a = obs b ->
  obs (fst (r_step a o)) = obs (fst (r_step b o)) /\ snd (r_step a o) = snd (r_step b o).
Proof.
  intro E. unfold r_step. rewrite (obs_well_typed a b E).
  destruct (well_typed b o); cbn [negb]; [|auto].
  destruct o as [sub us ls|vs oL|ou|k x y|l ov|l ov|v l|v l|l ov|l ov|x k y dontdup|x y destroy
                |u v|u v|v u|v u|u oL|L ou|fl].
  - (* NewVertex *)
    cbv zeta. rewrite (obs_next a b E). set (v := next b).
    set (K := if sub then KVertexSub else KVertex).
    assert (E1 : obs (fold_left (fun s l => r_v_add_to_link s v l) ls (set_vu (alloc K a) v (dedup us))) =
                 obs (fold_left (fun s l => r_v_add_to_link s v l) ls (set_vu (alloc K b) v (dedup us)))).
    { apply sim_fold; [intros; now apply sim_r_v_add_to_link|]. now apply sim_set_vu, sim_alloc. }
    apply robs_ok_or. rewrite (obs_vu _ _ E1). apply sim_seq_res; [|exact E1]. intros; now apply sim_r_u_add_vertex.
  - (* NewUniverse *)
    cbv zeta. rewrite (obs_next a b E). apply robs_ok_or.
    apply sim_seq_res; [intros; now apply sim_r_u_add_vertex|].
    destruct oL as [L|].
    + now apply sim_r_set_laws, sim_alloc.
    + rewrite (obs_next _ _ (sim_alloc KUniverse a b E)). now apply sim_set_ul, sim_set_la, sim_alloc, sim_alloc.
  - cbn [fst snd res_state]. rewrite (obs_next a b E). split; [|reflexivity]. now apply sim_set_la, sim_alloc.
  - rewrite !fst_let. destruct (sim_r_new_edge k x y a b E) as [H1 H2]. split; [exact H1|].
    destruct (r_new_edge a k x y), (r_new_edge b k x y). exact H2.
  - apply robs_ok_or. now apply sim_r_l_set_end.
  - apply robs_ok_or. now apply sim_r_l_set_end.
  - cbn [fst snd res_state]. split; [|reflexivity]. now apply sim_r_v_add_to_link.
  - cbn [fst snd res_state]. split; [|reflexivity]. now apply sim_r_v_remove_from_link.
  - cbn [fst snd res_state]. split; [|reflexivity]. now apply sim_r_l_add_vertex.
  - cbn [fst snd res_state]. split; [|reflexivity]. now apply sim_r_l_unlink_from.
  - (* LinkFromTo *)
    rewrite (obs_first_joining a b E), (obs_vl a b E).
    destruct (if dontdup then _ else _) as [[l|]|]; cbn [fst snd res_state]; auto.
    rewrite !fst_let. destruct (sim_r_new_edge k (Some x) (Some y) a b E) as [H1 H2]. split; [exact H1|].
    destruct (r_new_edge a k _ _), (r_new_edge b k _ _). exact H2.
  - (* Unlink *)
    rewrite (obs_find_links a b E). destruct (find_links _ b x y false UErr None) as [links|e]; cbn [fst snd res_state]; auto.
    split; [|reflexivity]. apply sim_fold; [|exact E]. intros. now apply sim_r_l_unlink_from, sim_r_l_unlink_from.
  - apply robs_ok_or. now apply sim_r_u_add_vertex.
  - apply robs_ok_or. now apply sim_r_u_remove_vertex.
  - apply robs_ok_or. now apply sim_r_v_add_to_universe.
  - apply robs_ok_or. now apply sim_r_v_remove_from_universe.
  - cbn [fst snd res_state]. split; [|reflexivity]. now apply sim_r_set_laws.
  - cbn [fst snd res_state]. split; [|reflexivity]. now apply sim_r_set_applies.
  - cbn [fst snd res_state]. split; [|reflexivity]. exact E.
Qed.

Lemma cstep_query_answer filt s v d u f : Inv s -> Coh filt s -> isv s v = true ->
  snd (cstep filt s (CNb v d u f)) =
  match neighbors_pure filt s v d u f with NOk l => Ret (VList l) | NErr e => Raised e end.
Proof.
  intros HI C Hv.
  apply (cached_answers_equal_recomputed filt [CNb v d u f] s HI C) with (pre := []) (post := []);
    [|reflexivity|exact Hv].
  intros o w [H|[]]. discriminate.
Qed.

Lemma query_sim filt a b v d u f : Inv a -> Inv b -> Coh filt a -> Coh filt b -> obs a = obs b ->
  obs (fst (cstep filt a (CNb v d u f))) = obs (fst (cstep filt b (CNb v d u f))) /\
  snd (cstep filt a (CNb v d u f)) = snd (cstep filt b (CNb v d u f)).
Proof.
  intros Ia Ib Ca Cb E. split.
  - destruct (cstep_query_state filt a v d u f) as [->|[x ->]],
             (cstep_query_state filt b v d u f) as [->|[y ->]]; exact E.
  - destruct (isv a v) eqn:Hv.
    + assert (Hv' : isv b v = true) by (rewrite <- (obs_isv a b E); exact Hv).
      rewrite !cstep_query_answer by auto. now rewrite (obs_neighbors_pure a b E).
    + cbn [cstep]. rewrite <- (obs_isv a b E), Hv. reflexivity.
Qed.

Lemma force_off_cases c :
  force_off c = c \/ exists fl, c = CMut (SetCaching fl) /\ force_off c = CMut (SetCaching false).
Proof. destruct c as [o|]; [destruct o|]; cbn [force_off]; eauto. Qed.

Lemma answers_sim filt : forall cs a b, Inv a -> Inv b -> Coh filt a -> Coh filt b -> obs a = obs b ->
  no_new_laws cs -> answers filt cs a = answers filt (map force_off cs) b.
Proof.
  induction cs as [|c cs IH]; intros a b Ia Ib Ca Cb E NL; cbn [answers map]; [reflexivity|].
  assert (NLc : forall o u, c = CMut o -> o <> NewLaws (Some u)) by (intros o u ->; apply NL; now left).
  assert (NLr : no_new_laws cs) by (intros o u Ho; apply NL; now right).
  assert (NLc' : forall o u, force_off c = CMut o -> o <> NewLaws (Some u)).
  { destruct (force_off_cases c) as [->|(fl & -> & ->)]; [exact NLc|]. intros o u [= <-]. discriminate. }
  destruct (cstep_pres filt a c Ia Ca NLc) as [Ia' Ca'].
  destruct (cstep_pres filt b (force_off c) Ib Cb NLc') as [Ib' Cb'].
  assert (S : obs (fst (cstep filt a c)) = obs (fst (cstep filt b (force_off c))) /\
              snd (cstep filt a c) = snd (cstep filt b (force_off c))).
  { destruct c as [o|v d u f].
    - destruct (force_off_cases (CMut o)) as [->|(fl & [= ->] & ->)].
      + cbn [cstep]. rewrite (step_refines a o Ia), (step_refines b o Ib) by (intro; now apply NLc).
        now apply r_step_sim.
      + cbn [cstep]. unfold step. cbn. auto.
    - cbn [force_off]. now apply query_sim. }
  destruct (cstep filt a c) as [a' o1], (cstep filt b (force_off c)) as [b' o2]. cbn [fst snd] in *.
  destruct S as [S1 ->]. f_equal. now apply IH.
Qed.

Theorem answers_independent_of_flag : forall filt cs,
  (forall o u, In (CMut o) cs -> o <> NewLaws (Some u)) ->
  answers filt cs empty = answers filt (map force_off cs) empty.
Proof.
  intros filt cs NL. apply answers_sim; auto using Inv_empty, Coh_empty.
Qed.

Print Assumptions neighbors_pure_footprint.
Print Assumptions Coh_query.
Print Assumptions Coh_transfer.
Print Assumptions Coh_step.
Print Assumptions Inv_query.
Print Assumptions Coh_reachable.
Print Assumptions Inv_reachable_c.
Print Assumptions cached_answers_equal_recomputed.
Print Assumptions answers_independent_of_flag.
