From EG Require Import Base State Nbrs Trav.
From Coq Require Import Lia.
(* StartMember.v -- membership of the start vertex / of the answers in the universe, for the three
   traversals (bft, dft_rec, dft_iter) and the three searches (bfs, dfs_rec, dfs_iter) of Trav.v.
   Stdlib only, no proof left open; every theorem is closed under the global context (see the end). *)

Section StartMember.
Variable nb : nat -> nres.
Variable uni : option (list nat).

Notation inU := (Trav.inU uni).
Notation nbo := (Trav.nbo nb).

(* ---------------------------------------------------------------------------------------- *)
(* preflight                                                                                 *)

Lemma preflight_nonmember start :
  uni <> Some [] -> inU (Some start) = false -> df_preflight uni start = Some ValueError.
Proof.
  intros Hu H. unfold df_preflight. destruct uni as [[|x vs]|]; [congruence| |]; now rewrite H.
Qed.

Lemma preflight_member start : df_preflight uni start = None -> inU (Some start) = true.
Proof.
  unfold df_preflight. destruct uni as [[|x vs]|]; try discriminate;
    destruct (Trav.inU _ (Some start)); cbn; congruence.
Qed.

(* ---------------------------------------------------------------------------------------- *)
(* searches: whatever is returned passed the inU test                                        *)

Section S.
Variable m : node -> bool.

(* bfs: the test is made in bfs_scan, before the match test *)
Lemma bfs_scan_found ns : forall q vis v, bfs_scan uni m ns q vis = BFound v -> inU v = true.
Proof.
  induction ns as [|w r IH]; intros q vis v H; cbn [bfs_scan] in H; [discriminate|].
  destruct (inU w) eqn:Ew; cbn [negb] in H.
  - destruct (m w).
    + injection H as <-. exact Ew.
    + destruct (nmem w vis); eapply IH; eassumption.
  - eapply IH; eassumption.
Qed.

Lemma bfs_loop_found f : forall q vis v, bfs_loop nb uni m f q vis = SOk (Some v) -> inU v = true.
Proof.
  induction f as [|f IH]; intros q vis v H; cbn [bfs_loop] in H; [discriminate|].
  destruct q as [|u q']; [discriminate|].
  destruct (nbo u) as [ns|e]; [|discriminate].
  destruct (bfs_scan uni m ns q' vis) as [w|q2 vis2] eqn:Es.
  - injection H as <-. eapply bfs_scan_found; eassumption.
  - eapply IH; eassumption.
Qed.

(* dfs_recursive: the nested `fix go` as a function of the recursive call *)
Definition dfs_list (rec : node -> list node -> rres) :=
  fix go (ws : list node) (vis : list node) : rres :=
  match ws with
  | [] => RNone vis
  | w :: r =>
      if inU w && negb (nmem w vis)
      then if m w then RFound w
           else match rec w vis with
                | RNone vis' => go r vis'
                | x => x
                end
      else go r vis
  end.

Lemma dfs_recur_S f v vis :
  dfs_recur nb uni m (S f) v vis =
  match nbo v with
  | NErr e => RErr e
  | NOk ns => dfs_list (dfs_recur nb uni m f) ns (v :: vis)
  end.
Proof. reflexivity. Qed.

Lemma dfs_list_found (rec : node -> list node -> rres) :
  (forall w vis v, rec w vis = RFound v -> inU v = true) ->
  forall ws vis v, dfs_list rec ws vis = RFound v -> inU v = true.
Proof.
  intros Hrec. induction ws as [|w r IH]; intros vis v H; cbn [dfs_list] in H; [discriminate|].
  destruct (inU w) eqn:Ew; cbn [andb] in H.
  - destruct (negb (nmem w vis)).
    + destruct (m w).
      * injection H as <-. exact Ew.
      * destruct (rec w vis) as [x|vis'| |] eqn:Er; try discriminate.
        -- injection H as <-. eapply Hrec; eassumption.
        -- eapply IH; eassumption.
    + eapply IH; eassumption.
  - eapply IH; eassumption.
Qed.

Lemma dfs_recur_found f : forall w vis v, dfs_recur nb uni m f w vis = RFound v -> inU v = true.
Proof.
  induction f as [|f IH]; intros w vis v H; [discriminate|].
  rewrite dfs_recur_S in H. destruct (nbo w) as [ns|e]; [|discriminate].
  eapply dfs_list_found; eassumption.
Qed.

(* dfs_iterative: the test is made on pop, before the match test *)
Lemma dfsi_loop_found f : forall st disc v, dfsi_loop nb uni m f st disc = SOk (Some v) -> inU v = true.
Proof.
  induction f as [|f IH]; intros st disc v H; cbn [dfsi_loop] in H; [discriminate|].
  destruct st as [|w st]; [discriminate|].
  destruct (inU w) eqn:Ew; cbn [negb] in H; [|eapply IH; eassumption].
  destruct (nmem w disc); [eapply IH; eassumption|].
  destruct (m w); [injection H as <-; exact Ew|].
  destruct (nbo w) as [ns|e]; [|discriminate]. eapply IH; eassumption.
Qed.

End S.

(* ---------------------------------------------------------------------------------------- *)
(* traversals: everything listed passed the inU test                                         *)

Section T.
Variable fres : node -> bool.

Definition allU (l : list node) : Prop := forall v, In v l -> inU v = true.

Lemma allU_nil : allU [].
Proof. intros v []. Qed.

Lemma emit_allU v out : inU v = true -> allU out -> allU (emit fres v out).
Proof.
  intros Hv Ho. unfold emit. destruct (fres v); [|exact Ho].
  intros x Hx. apply in_app_or in Hx. destruct Hx as [Hx|[<-|[]]]; auto.
Qed.

(* bft *)
Lemma bft_fold_allU ns : forall q vis out q2 vis2 out2,
  fold_left (bft_discover uni fres) ns (q, vis, out) = (q2, vis2, out2) -> allU out -> allU out2.
Proof.
  induction ns as [|w r IH]; intros q vis out q2 vis2 out2 H Ho; cbn [fold_left] in H.
  - injection H as <- <- <-. exact Ho.
  - unfold bft_discover at 2 in H. destruct (inU w) eqn:Ew.
    + destruct (nmem w vis).
      * eapply IH; eassumption.
      * eapply IH; [eassumption|]. now apply emit_allU.
    + eapply IH; eassumption.
Qed.

Lemma bft_loop_allU f : forall q vis out out',
  bft_loop nb uni fres f q vis out = TOk out' -> allU out -> allU out'.
Proof.
  induction f as [|f IH]; intros q vis out out' H Ho; cbn [bft_loop] in H; [discriminate|].
  destruct q as [|u q']; [injection H as <-; exact Ho|].
  destruct (nbo u) as [ns|e]; [|discriminate].
  destruct (fold_left (bft_discover uni fres) ns (q', vis, out)) as [[q2 vis2] out2] eqn:Ef.
  eapply IH; [eassumption|]. eapply bft_fold_allU; eassumption.
Qed.

(* dft_rec: the nested `fix go` as a function of the recursive call *)
Definition dfr_list (rec : node -> list node -> list node -> dres) :=
  fix go (ws vis out : list node) : dres :=
  match ws with
  | [] => DOk vis out
  | w :: r =>
      if inU w && negb (nmem w vis)
      then match rec w vis out with
           | DOk vis' out' => go r vis' out'
           | e => e
           end
      else go r vis out
  end.

Lemma dfr_S f v vis out :
  dfr nb uni fres (S f) v vis out =
  match nbo v with
  | NErr e => DErr e
  | NOk ns => dfr_list (dfr nb uni fres f) ns (v :: vis) (emit fres v out)
  end.
Proof. reflexivity. Qed.

Lemma dfr_list_allU (rec : node -> list node -> list node -> dres) :
  (forall w vis out vis' out', rec w vis out = DOk vis' out' -> inU w = true -> allU out -> allU out') ->
  forall ws vis out vis' out', dfr_list rec ws vis out = DOk vis' out' -> allU out -> allU out'.
Proof.
  intros Hrec. induction ws as [|w r IH]; intros vis out vis' out' H Ho; cbn [dfr_list] in H.
  - injection H as <- <-. exact Ho.
  - destruct (inU w) eqn:Ew; cbn [andb] in H; [|eapply IH; eassumption].
    destruct (negb (nmem w vis)); [|eapply IH; eassumption].
    destruct (rec w vis out) as [vis1 out1| |] eqn:Er; try discriminate.
    eapply IH; [eassumption|]. eapply Hrec; eassumption.
Qed.

Lemma dfr_allU f : forall w vis out vis' out',
  dfr nb uni fres f w vis out = DOk vis' out' -> inU w = true -> allU out -> allU out'.
Proof.
  induction f as [|f IH]; intros w vis out vis' out' H Hw Ho; [discriminate|].
  rewrite dfr_S in H. destruct (nbo w) as [ns|e]; [|discriminate].
  eapply dfr_list_allU; [exact IH|eassumption|]. now apply emit_allU.
Qed.

(* dft_iter: test on pop *)
Lemma dfi_loop_allU f : forall st disc out out',
  dfi_loop nb uni fres f st disc out = TOk out' -> allU out -> allU out'.
Proof.
  induction f as [|f IH]; intros st disc out out' H Ho; cbn [dfi_loop] in H; [discriminate|].
  destruct st as [|w st]; [injection H as <-; exact Ho|].
  destruct (nmem w disc); [eapply IH; eassumption|].
  destruct (inU w) eqn:Ew; cbn [negb] in H; [|eapply IH; eassumption].
  destruct (nbo w) as [ns|e]; [|discriminate].
  eapply IH; [eassumption|]. now apply emit_allU.
Qed.

End T.
End StartMember.

(* ======================================================================================== *)
(* 1. a start vertex outside a non-empty universe is refused by all three traversals        *)

Theorem nonmember_start_refused_trav : forall nb uni fres fuel start,
  uni <> Some [] -> inU uni (Some start) = false ->
  bft nb uni fres fuel start = TErr ValueError /\
  dft_rec nb uni fres fuel start = TErr ValueError /\
  dft_iter nb uni fres fuel start = TErr ValueError.
Proof.
  intros nb uni fres fuel start Hu H.
  pose proof (preflight_nonmember uni start Hu H) as Hp.
  split; [|split].
  - unfold bft. destruct uni as [[|x vs]|]; [congruence| |]; now rewrite H.
  - unfold dft_rec. now rewrite Hp.
  - unfold dft_iter. now rewrite Hp.
Qed.

(* 2. ... and by all three searches (the membership test precedes the match test in each)   *)

Theorem nonmember_start_refused_search : forall nb uni m fuel start,
  uni <> Some [] -> inU uni (Some start) = false ->
  bfs nb uni m fuel start = SErr ValueError /\
  dfs_rec nb uni m fuel start = SErr ValueError /\
  dfs_iter nb uni m fuel start = SErr ValueError.
Proof.
  intros nb uni m fuel start Hu H.
  pose proof (preflight_nonmember uni start Hu H) as Hp.
  split; [|split].
  - unfold bfs. destruct uni as [[|x vs]|]; [congruence| |]; now rewrite H.
  - unfold dfs_rec. now rewrite Hp.
  - unfold dfs_iter. now rewrite Hp.
Qed.

(* 3. whatever a search returns is a member of the universe                                  *)

Theorem search_result_is_member : forall nb uni m fuel start v,
  (bfs nb uni m fuel start = SOk (Some v) -> inU uni v = true) /\
  (dfs_rec nb uni m fuel start = SOk (Some v) -> inU uni v = true) /\
  (dfs_iter nb uni m fuel start = SOk (Some v) -> inU uni v = true).
Proof.
  intros nb uni m fuel start v. split; [|split].
  - unfold bfs. intro H.
    assert (G : (if negb (inU uni (Some start)) then SErr ValueError
                 else if m (Some start) then SOk (Some (Some start))
                 else bfs_loop nb uni m fuel [Some start] [Some start]) = SOk (Some v) ->
                inU uni v = true).
    { clear H. intro H. destruct (inU uni (Some start)) eqn:Es; cbn [negb] in H; [|discriminate].
      destruct (m (Some start)).
      - injection H as <-. exact Es.
      - eapply bfs_loop_found; eassumption. }
    destruct uni as [[|x vs]|]; [discriminate| |]; exact (G H).
  - unfold dfs_rec. intro H.
    destruct (df_preflight uni start) eqn:Ep; [discriminate|].
    apply preflight_member in Ep.
    destruct (m (Some start)).
    + injection H as <-. exact Ep.
    + destruct (dfs_recur nb uni m fuel (Some start) []) as [w|vis|e|] eqn:Er; try discriminate.
      injection H as <-. eapply dfs_recur_found; eassumption.
  - unfold dfs_iter. intro H.
    destruct (df_preflight uni start) eqn:Ep; [discriminate|].
    eapply dfsi_loop_found; eassumption.
Qed.

(* 4. every vertex listed by a traversal is a member of the universe                         *)

Theorem trav_listing_within_universe : forall nb uni fres fuel start out,
  (bft nb uni fres fuel start = TOk out -> forall v, In v out -> inU uni v = true) /\
  (dft_rec nb uni fres fuel start = TOk out -> forall v, In v out -> inU uni v = true) /\
  (dft_iter nb uni fres fuel start = TOk out -> forall v, In v out -> inU uni v = true).
Proof.
  intros nb uni fres fuel start out. split; [|split].
  - unfold bft. intro H.
    assert (G : (if negb (inU uni (Some start)) then TErr ValueError
                 else bft_loop nb uni fres fuel [Some start] [Some start] (emit fres (Some start) [])) = TOk out ->
                allU uni out).
    { clear H. intro H. destruct (inU uni (Some start)) eqn:Es; cbn [negb] in H; [|discriminate].
      eapply bft_loop_allU; [eassumption|]. apply emit_allU; [exact Es|apply allU_nil]. }
    destruct uni as [[|x vs]|].
    + injection H as <-. intros v [].
    + exact (G H).
    + exact (G H).
  - unfold dft_rec. intro H.
    destruct (df_preflight uni start) eqn:Ep; [discriminate|].
    apply preflight_member in Ep.
    destruct (dfr nb uni fres fuel (Some start) [] []) as [vis o|e|] eqn:Er; try discriminate.
    injection H as <-. eapply dfr_allU; [eassumption|exact Ep|apply allU_nil].
  - unfold dft_iter. intro H.
    destruct (df_preflight uni start) eqn:Ep; [discriminate|].
    eapply dfi_loop_allU; [eassumption|apply allU_nil].
Qed.

Print Assumptions nonmember_start_refused_trav.
Print Assumptions nonmember_start_refused_search.
Print Assumptions search_result_is_member.
Print Assumptions trav_listing_within_universe.
