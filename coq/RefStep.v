(* RefStep.v — the plain reference model of the whole structure / explicit-builder API (C03):
   the same operations as Struct.step, but every method is a direct list edit — no call-backs,
   no mutual recursion, no fuel.  RefProofs.v proves Struct.step = r_step on every reachable
   state.  Model-side file: definitions only. *)
From EG Require Import Base State Nbrs Struct Ref.

(* ---- universe membership: direct edits ---- *)
Definition r_u_add_vertex (s : state) (u v : nat) : res :=
  if memn v (uv s u) then Ok s
  else let s1 := set_uv s u (uv s u ++ [v]) in
       if memn u (vu s v) then Ok s1 else Ok (set_vu s1 v (vu s v ++ [u])).
Definition r_v_add_to_universe (s : state) (v u : nat) : res :=
  let s1 := if memn u (vu s v) then s else set_vu s v (vu s v ++ [u]) in
  if memn v (uv s u) then Ok s1 else Ok (set_uv s1 u (uv s u ++ [v])).
Definition r_u_remove_vertex (s : state) (u v : nat) : res :=
  if memn v (uv s u) then
    let s1 := set_uv s u (remove1 v (uv s u)) in
    if memn u (vu s v) then Ok (set_vu s1 v (remove1 u (vu s v))) else Ok s1
  else Raise ValueError s.
Definition r_v_remove_from_universe (s : state) (v u : nat) : res :=
  if memn u (vu s v) then
    let s1 := set_vu s v (remove1 u (vu s v)) in
    if memn v (uv s u) then Ok (set_uv s1 u (remove1 v (uv s u))) else Ok s1
  else Raise ValueError s.

(* ---- universe <-> laws: direct edits ---- *)
Definition r_detach_la (s : state) (o : option nat) := match o with Some L0 => set_la s L0 None | None => s end.
Definition r_detach_ul (s : state) (o : option nat) := match o with Some u0 => set_ul s u0 None | None => s end.
(* u.laws = oL: u gets oL; u's previous law set is released; oL is taken from its previous universe *)
Definition r_set_laws (s : state) (u : nat) (oL : option nat) : state :=
  if oeqb oL (ul s u) then s else
  let s2 := r_detach_la (set_ul s u oL) (ul s u) in
  match oL with None => s2 | Some L => r_detach_ul (set_la s2 L (Some u)) (la s L) end.
Definition r_set_applies (s : state) (L : nat) (ou : option nat) : state :=
  if oeqb ou (la s L) then s else
  let s2 := r_detach_ul (set_la s L ou) (la s L) in
  match ou with None => s2 | Some u => r_detach_la (set_ul s2 u (Some L)) (ul s u) end.

Definition r_new_edge (s : state) (k : cls) (a b : option nat) : res * outcome :=
  let bad o := match o with Some i => negb (is_vertex (kd s i)) | None => false end in
  if bad a || bad b then (Ok s, Raised TypeError)
  else
    let l := next s in
    (Ok (r_l_add_vertex (r_l_add_vertex (alloc k s) l a) l b), Ret (VId l)).

Definition r_step (s : state) (o : op) : state * outcome :=
  if negb (well_typed s o) then (s, Raised IllTyped) else
  let '(r, out) :=
    match o with
    | NewVertex sub us ls =>
        let v := next s in
        let s0 := set_vu (alloc (if sub then KVertexSub else KVertex) s) v (dedup us) in
        let s1 := fold_left (fun s l => r_v_add_to_link s v l) ls s0 in
        ok_or (seq_res (fun s u => r_u_add_vertex s u v) (vu s1 v) s1) (VId v)
    | NewUniverse vs oL =>
        let u := next s in
        let s0 := alloc KUniverse s in
        let s1 := match oL with
                  | Some L => r_set_laws s0 u (Some L)
                  | None => let L := next s0 in set_ul (set_la (alloc KLaws s0) L (Some u)) u (Some L)
                  end in
        ok_or (seq_res (fun s v => r_u_add_vertex s u v) vs s1) (VId u)
    | NewLaws ou => let L := next s in (Ok (set_la (alloc KLaws s) L ou), Ret (VId L))
    | NewEdge k a b => r_new_edge s k a b
    | SetV1 l ov => ok_or (r_l_set_end s l 0 ov) VNone
    | SetV2 l ov => ok_or (r_l_set_end s l 1 ov) VNone
    | VAddToLink v l => (Ok (r_v_add_to_link s v l), Ret VNone)
    | VRemoveFromLink v l => (Ok (r_v_remove_from_link s v l), Ret VNone)
    | LAddVertex l ov => (Ok (r_l_add_vertex s l ov), Ret VNone)
    | LUnlinkFrom l ov => (Ok (r_l_unlink_from s l ov), Ret VNone)
    | LinkFromTo a k b dontdup =>
        match (if dontdup then first_joining s a b (vl s a) else Some None) with
        | None => (Ok s, Raised IndexError)
        | Some (Some l) => (Ok s, Ret (VId l))
        | Some None => r_new_edge s k (Some a) (Some b)
        end
    | Unlink a b destroy =>
        match find_links (fun _ _ => true) s a b false UErr None with
        | FErr e => (Ok s, Raised e)
        | FOk links =>
            (Ok (fold_left (fun s l => r_l_unlink_from (r_l_unlink_from s l (Some a)) l (Some b)) links s),
             Ret (if destroy then VNone else VSet links))
        end
    | UAddVertex u v => ok_or (r_u_add_vertex s u v) VNone
    | URemoveVertex u v => ok_or (r_u_remove_vertex s u v) VNone
    | VAddToUniverse v u => ok_or (r_v_add_to_universe s v u) VNone
    | VRemoveFromUniverse v u => ok_or (r_v_remove_from_universe s v u) VNone
    | SetLaws u oL => (Ok (r_set_laws s u oL), Ret VNone)
    | SetAppliesTo L ou => (Ok (r_set_applies s L ou), Ret VNone)
    | SetCaching b => (Ok (set_caching s b), Ret VNone)
    end in
  (res_state r, out).

Definition r_run (ops : list op) (s : state) : state := fold_left (fun s o => fst (r_step s o)) ops s.

(* transcripts: outcome and whole heap after every call *)
Fixpoint transcript_of (stp : state -> op -> state * outcome) (s : state) (ops : list op) : list (outcome * state) :=
  match ops with
  | [] => []
  | o :: r => let '(s', out) := stp s o in (out, s') :: transcript_of stp s' r
  end.
