(* CacheCheck.v — lock-step comparison for histories with queries (generated cases only). *)
From EG Require Import Base State Nbrs Struct StructCheck Cache.
Fixpoint ccheck_hist (m : mask) (s : state) (h : list (cop * (outcome * state))) : bool :=
  match h with
  | [] => true
  | (c, (eo, es)) :: r =>
      let '(s', out) := cstep std_filt s c in
      outcome_eqb out eo && obs_eqb m s' es && ccheck_hist m s' r
  end.
Definition ccheck (h : list (cop * (outcome * state))) : bool := ccheck_hist MLinks empty h.
Fixpoint ctranscript (s : state) (cs : list cop) : list outcome :=
  match cs with [] => [] | c :: r => let '(s', out) := cstep std_filt s c in out :: ctranscript s' r end.
