(* TravCheck.v — traversal / search queries on an imported heap state, compared with the
   implementation's answers (used by generated cases files only). *)
From EG Require Import Base State Nbrs Struct StructCheck Trav TravState.

Inductive tkind := KBft | KDfr | KDfi.
Inductive tqry :=
  | TQ (k : tkind) (ou : option nat) (start : nat) (d : dirn) (u : unk) (fv fr : option nat)
  | SQ (k : tkind) (ou : option nat) (start : nat) (m : list bool).   (* m: per object id, does it match? *)
Inductive tans := AList (l : list node) | AFound (v : node) | ANone | AErr (e : exn) | AFuel.

Definition mfun (m : list bool) (v : node) : bool := match v with Some x => nth x m false | None => false end.
Definition of_tres (r : tres) : tans := match r with TOk l => AList l | TErr e => AErr e | TFuel => AFuel end.
Definition of_sres (r : sres) : tans := match r with SOk (Some v) => AFound v | SOk None => ANone | SErr e => AErr e | SFuel => AFuel end.

Definition run_tq (s : state) (q : tqry) : tans :=
  match q with
  | TQ KBft ou st d u fv fr => of_tres (s_bft std_filt s ou st d u fv (std_fres fr))
  | TQ KDfr ou st d u fv fr => of_tres (s_dft_rec std_filt s ou st d u fv (std_fres fr))
  | TQ KDfi ou st d u fv fr => of_tres (s_dft_iter std_filt s ou st d u fv (std_fres fr))
  | SQ KBft ou st m => of_sres (s_bfs std_filt s ou st (mfun m))
  | SQ KDfr ou st m => of_sres (s_dfs_rec std_filt s ou st (mfun m))
  | SQ KDfi ou st m => of_sres (s_dfs_iter std_filt s ou st (mfun m))
  end.
Definition tans_eqb (a b : tans) : bool :=
  match a, b with
  | AList x, AList y => list_eqb oeqb x y
  | AFound x, AFound y => oeqb x y
  | ANone, ANone => true
  | AErr e, AErr f => exn_eqb e f
  | _, _ => false
  end.
Definition tcheck (c : state * list (tqry * tans)) : bool :=
  forallb (fun qe => tans_eqb (run_tq (fst c) (fst qe)) (snd qe)) (snd c).
Definition tanswers (c : state * list (tqry * tans)) : list tans := map (fun qe => run_tq (fst c) (fst qe)) (snd c).

(* several snapshots of one evolving graph, each with its queries (histories interleaving
   mutations and traversals) *)
Definition tcheck_phases (l : list (state * list (tqry * tans))) : bool := forallb tcheck l.
Definition tanswers_phases (l : list (state * list (tqry * tans))) : list (list tans) := map tanswers l.
