(* Lemmas.v — general list lemmas used by the proof files. *)
From EG Require Import Base.
From Coq Require Import Permutation.

Lemma NoDup_app_snoc {A} (l : list A) x : NoDup l -> ~ In x l -> NoDup (l ++ [x]).
Proof.
  intros H Hx. induction H as [|y l Hy Hl IH]; cbn; [constructor; [tauto|constructor]|].
  constructor.
  - rewrite in_app_iff. cbn. intros [H|[H|[]]]; [contradiction|]. subst. apply Hx. now left.
  - apply IH. intro. apply Hx. now right.
Qed.
Lemma NoDup_snoc_inv {A} (l : list A) x : NoDup (l ++ [x]) -> NoDup l /\ ~ In x l.
Proof.
  intro H. apply NoDup_remove in H. rewrite app_nil_r in H. exact H.
Qed.
Lemma in_remove1 x y l : In y (remove1 x l) -> In y l.
Proof. induction l as [|z l IH]; cbn; auto. destruct (Nat.eqb x z); cbn; tauto. Qed.
Lemma in_remove1_neq x y l : x <> y -> In y l -> In y (remove1 x l).
Proof. intro Hn. induction l as [|z l IH]; cbn; auto. destruct (Nat.eqb x z) eqn:E.
  - apply Nat.eqb_eq in E. subst. intros [H|H]; [congruence|auto].
  - cbn. tauto. Qed.
Lemma NoDup_remove1 x l : NoDup l -> NoDup (remove1 x l).
Proof. induction 1 as [|y l Hy Hl IH]; cbn; [constructor|]. destruct (Nat.eqb x y); auto.
  constructor; auto. intro H. apply Hy. eapply in_remove1; eauto. Qed.
Lemma remove1_notin x l : NoDup l -> ~ In x (remove1 x l).
Proof. induction 1 as [|y l Hy Hl IH]; cbn; auto. destruct (Nat.eqb x y) eqn:E.
  - apply Nat.eqb_eq in E. now subst. - apply Nat.eqb_neq in E. cbn. intros [H|H]; [congruence|auto]. Qed.
Lemma remove1_absent x l : ~ In x l -> remove1 x l = l.
Proof. induction l as [|y l IH]; cbn; auto. intro H. destruct (Nat.eqb x y) eqn:E.
  - apply Nat.eqb_eq in E. subst. exfalso. apply H. now left. - f_equal. apply IH. tauto. Qed.
Lemma memn_snoc x l : memn x (l ++ [x]) = true.
Proof. apply memn_In. apply in_or_app. right; left; reflexivity. Qed.
Lemma memn_app x l m : memn x (l ++ m) = memn x l || memn x m.
Proof. unfold memn. apply existsb_app. Qed.
Lemma memo_app x l m : memo x (l ++ m) = memo x l || memo x m.
Proof. unfold memo. apply existsb_app. Qed.
Lemma memn_remove1_nodup x l : NoDup l -> memn x (remove1 x l) = false.
Proof. intro H. apply memn_nIn. now apply remove1_notin. Qed.
Lemma in_oremove_all x y l : In y (oremove_all x l) <-> In y l /\ y <> x.
Proof. unfold oremove_all. rewrite filter_In. rewrite negb_true_iff, oeqb_neq. intuition congruence. Qed.
Lemma memo_oremove_all x l : memo x (oremove_all x l) = false.
Proof. apply memo_nIn. rewrite in_oremove_all. tauto. Qed.
Lemma oremove_all_absent x l : ~ In x l -> oremove_all x l = l.
Proof. induction l as [|y l IH]; cbn; auto. intro H. destruct (oeqb x y) eqn:E; cbn.
  - apply oeqb_eq in E. subst. exfalso. apply H. now left. - f_equal. apply IH. tauto. Qed.
Lemma in_oremove1 x y l : In y (oremove1 x l) -> In y l.
Proof. induction l as [|z l IH]; cbn; auto. destruct (oeqb x z); cbn; tauto. Qed.
Lemma in_oremove1_neq x y l : x <> y -> In y l -> In y (oremove1 x l).
Proof. intro Hn. induction l as [|z l IH]; cbn; auto. destruct (oeqb x z) eqn:E.
  - apply oeqb_eq in E. subst. intros [H|H]; [congruence|auto].
  - cbn. tauto. Qed.

(* dedup (dict.fromkeys) *)
Lemma dedup_acc_In seen l x : In x (dedup_acc seen l) <-> In x l /\ ~ In x seen.
Proof.
  revert seen. induction l as [|y l IH]; intro seen; cbn; [tauto|].
  destruct (memn y seen) eqn:E.
  - apply memn_In in E. rewrite IH. split; [tauto|]. intros [[->|H] Hn]; tauto.
  - apply memn_nIn in E. cbn. rewrite IH. cbn. split.
    + intros [->|[H Hn]]; [tauto|]. split; [tauto|]. intro. apply Hn. now right.
    + intros [[->|H] Hn]; [now left|]. destruct (Nat.eq_dec y x); [now left|right]. split; auto. intros [?|?]; auto.
Qed.
Lemma dedup_In l x : In x (dedup l) <-> In x l.
Proof. unfold dedup. rewrite dedup_acc_In. cbn. tauto. Qed.
Lemma dedup_acc_NoDup seen l : NoDup (dedup_acc seen l).
Proof.
  revert seen. induction l as [|y l IH]; intro seen; cbn; [constructor|].
  destruct (memn y seen) eqn:E; auto. constructor; auto.
  rewrite dedup_acc_In. cbn. tauto.
Qed.
Lemma dedup_NoDup l : NoDup (dedup l).
Proof. apply dedup_acc_NoDup. Qed.
Lemma dedup_acc_id seen l : NoDup l -> (forall x, In x l -> ~ In x seen) -> dedup_acc seen l = l.
Proof.
  revert seen. induction l as [|y l IH]; intros seen Hnd Hs; cbn; auto.
  inversion Hnd; subst. assert (memn y seen = false) as -> by (apply memn_nIn; apply Hs; now left).
  f_equal. apply IH; auto. intros x Hx [<-|H]; [contradiction|]. eapply Hs; eauto. now right.
Qed.
Lemma dedup_id l : NoDup l -> dedup l = l.
Proof. intro. apply dedup_acc_id; auto. Qed.
