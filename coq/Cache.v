(* Cache.v — the neighbour memo: Vertex._qa_neighbors_get / _insert and helpers.neighbors() around
   it, as state transformers; histories that interleave mutations, flag toggles and queries.
   Model-side file: definitions only.  (Invalidation is part of the mutators: Struct.inval.) *)
From EG Require Import Base State Nbrs Struct.

(* dict lookup / store on the per-vertex memo; keys compare as Python compares the argument tuple
   (direction, unknown_handling, filterfunc): ints by value, functions by identity *)
Fixpoint ca_lookup (k : ckey) (c : list (ckey * list (option nat))) : option (list (option nat)) :=
  match c with
  | [] => None
  | (k', x) :: r => if ckey_eqb k k' then Some x else ca_lookup k r
  end.
Definition ca_store (k : ckey) (x : list (option nat)) (c : list (ckey * list (option nat))) :=
  (k, x) :: filter (fun p => negb (ckey_eqb k (fst p))) c.

Section Cached.
  Variable filt : nat -> nat -> option nat -> bool.

  (* helpers.neighbors(vert, d, u, f):
       cached = vert._qa_neighbors_get(d, u, f)      -- INVALID when the flag is off or no entry;
                                                        a hit returns a COPY of the stored list
       if cached is not INVALID: return cached
       nbs = [...loop...]                             -- may raise: nothing is stored then
       vert._qa_neighbors_insert(nbs, d, u, f)        -- stores a COPY, only while the flag is on
       return nbs                                                                              *)
  Definition neighbors_c (s : state) (v : nat) (d : dirn) (u : unk) (f : option nat) : state * nres :=
    if caching s then
      match ca_lookup (d, u, f) (ca s v) with
      | Some ans => (s, NOk ans)
      | None =>
          match neighbors_pure filt s v d u f with
          | NOk nbs => (set_ca s v (ca_store (d, u, f) nbs (ca s v)), NOk nbs)
          | NErr e => (s, NErr e)
          end
      end
    else (s, neighbors_pure filt s v d u f).

  (* histories: any mutator of the structure API, or a neighbors() query *)
  Inductive cop := CMut (o : op) | CNb (v : nat) (d : dirn) (u : unk) (f : option nat).
  Definition cstep (s : state) (c : cop) : state * outcome :=
    match c with
    | CMut o => step s o
    | CNb v d u f =>
        if negb (isv s v) then (s, Raised IllTyped)
        else let '(s', r) := neighbors_c s v d u f in
             (s', match r with NOk l => Ret (VList l) | NErr e => Raised e end)
    end.
  Definition crun (cs : list cop) (s : state) : state := fold_left (fun s c => fst (cstep s c)) cs s.

  (* the same history with caching never enabled: every SetCaching becomes SetCaching false *)
  Definition force_off (c : cop) : cop :=
    match c with CMut (SetCaching _) => CMut (SetCaching false) | _ => c end.
  Fixpoint answers (cs : list cop) (s : state) : list outcome :=
    match cs with
    | [] => []
    | c :: r => let '(s', out) := cstep s c in out :: answers r s'
    end.

  (* coherence: every memo entry, of every vertex, equals what the loop would compute now —
     whatever the current value of the flag *)
  Definition Coh (s : state) : Prop :=
    forall v k ans, ca_lookup k (ca s v) = Some ans ->
      neighbors_pure filt s v (fst (fst k)) (snd (fst k)) (snd k) = NOk ans.
End Cached.
