(* FieldAlias.v — object identity of the containers the library KEEPS IN ITS FIELDS and of those it
   TAKES IN and HANDS OUT (C12, the accessor / constructor half; MemoAlias.v is the memo half).

   List objects live in a heap of cells.  A "field" is a container attribute of a library object
   (Universe._vertices, Link._vertices, Vertex._links, BaseObject._universes ...): it names the
   location of the list object the library keeps.  The client owns locations too: lists it made
   itself (FAlloc), lists it passed to a constructor (FNew) and whatever an accessor handed it
   (FRead).  The client may overwrite ANY location it owns, at any time (FClient).

   `copy_in`  = the constructor stores a copy of the argument   (list(vertices) in __init__)
   `copy_out` = the accessor hands out a copy of the field       (tuple(self._vertices) / list(...))
   Both are true of the code as it is; either one false is the aliasing slip C12 forbids.

   The specification (`sstep`) knows no locations at all: fields are plain values, client edits
   are no-ops.  Model-side file: definitions only; proofs in FieldAliasProofs.v. *)
From EG Require Import Base.

Record fstate := {
  fcells : list (list nat);        (* the list objects, by location                               *)
  fields : list nat;               (* field number -> location of the list the library keeps      *)
  fowned : list nat                (* locations the client holds a reference to                   *)
}.
Definition finit : fstate := {| fcells := []; fields := []; fowned := [] |}.

Inductive fop :=
  | FAlloc (xs : list nat)                  (* the client builds a list of its own                 *)
  | FNew (loc : nat)                        (* Universe(vertices=lst) / Link(vertices=lst) ...:
                                               a new object whose field is initialised from the
                                               client's list at loc (ignored if loc is not owned)  *)
  | FRead (f : nat)                         (* accessor of field f: a location goes to the client  *)
  | FLibAdd (f x : nat)                     (* library mutator: append x to field f                *)
  | FLibDel (f x : nat)                     (* library mutator: remove the first x from field f    *)
  | FClient (loc : nat) (xs : list nat).    (* the client overwrites a list it holds               *)

Fixpoint remove1 (x : nat) (l : list nat) : list nat :=
  match l with [] => [] | y :: r => if Nat.eqb x y then r else y :: remove1 x r end.

Definition falloc (s : fstate) (x : list nat) : fstate * nat :=
  ({| fcells := fcells s ++ [x]; fields := fields s; fowned := fowned s |}, length (fcells s)).
Definition fown (s : fstate) (c : nat) : fstate :=
  {| fcells := fcells s; fields := fields s; fowned := c :: fowned s |}.
Definition fwrite (s : fstate) (c : nat) (xs : list nat) : fstate :=
  {| fcells := set c xs (fcells s); fields := fields s; fowned := fowned s |}.
Definition faddfield (s : fstate) (c : nat) : fstate :=
  {| fcells := fcells s; fields := fields s ++ [c]; fowned := fowned s |}.
Definition fieldloc (s : fstate) (f : nat) : option nat := nth_error (fields s) f.

Section Alias.
  Variables copy_in copy_out : bool.

  (* new state and, for an accessor call, the location handed to the client *)
  Definition fstep (s : fstate) (o : fop) : fstate * option nat :=
    match o with
    | FAlloc xs => let '(s1, c) := falloc s xs in (fown s1 c, None)
    | FNew loc =>
        if memn loc (fowned s) then
          if copy_in then let '(s1, c) := falloc s (get [] loc (fcells s)) in (faddfield s1 c, None)
          else (faddfield s loc, None)
        else (s, None)
    | FRead f =>
        match fieldloc s f with
        | Some c =>
            if copy_out then let '(s1, c') := falloc s (get [] c (fcells s)) in (fown s1 c', Some c')
            else (fown s c, Some c)
        | None => (s, None)
        end
    | FLibAdd f x =>
        match fieldloc s f with
        | Some c => (fwrite s c (get [] c (fcells s) ++ [x]), None)
        | None => (s, None)
        end
    | FLibDel f x =>
        match fieldloc s f with
        | Some c => (fwrite s c (remove1 x (get [] c (fcells s))), None)
        | None => (s, None)
        end
    | FClient loc xs => if memn loc (fowned s) then (fwrite s loc xs, None) else (s, None)
    end.

  (* what each accessor call of a history answered: the CONTENT of the handed list when handed *)
  Fixpoint fanswers (s : fstate) (ops : list fop) : list (option (list nat)) :=
    match ops with
    | [] => []
    | o :: r => let '(s', h) := fstep s o in
                match o, h with
                | FRead _, Some c => Some (get [] c (fcells s')) :: fanswers s' r
                | _, _ => None :: fanswers s' r
                end
    end.
  Fixpoint frun (s : fstate) (ops : list fop) : fstate :=
    match ops with [] => s | o :: r => frun (fst (fstep s o)) r end.
End Alias.

(* ---------- the specification: values only ---------- *)
(* the client's own lists matter to the spec only as VALUES at the moment they are passed in; the
   spec therefore keeps the client's heap too (it is the client's business), but library fields
   are values that nothing but the library's own mutators change. *)
Record sstate := {
  sclient : list (list nat);       (* client-side lists by location (mirrors the allocation order) *)
  sowned  : list nat;
  sfields : list (list nat)        (* field number -> VALUE                                        *)
}.
Definition sinit : sstate := {| sclient := []; sowned := []; sfields := [] |}.

Definition setf (f : nat) (v : list nat) (l : list (list nat)) : list (list nat) :=
  if Nat.ltb f (length l) then set f v l else l.

(* the spec allocates a client-side cell exactly where the copying implementation allocates any
   cell, so that locations named by later ops mean the same list on both sides *)
Definition sstep (s : sstate) (o : fop) : sstate * option (list nat) :=
  match o with
  | FAlloc xs => ({| sclient := sclient s ++ [xs]; sowned := length (sclient s) :: sowned s; sfields := sfields s |}, None)
  | FNew loc =>
      if memn loc (sowned s) then
        ({| sclient := sclient s ++ [[]]; sowned := sowned s; sfields := sfields s ++ [get [] loc (sclient s)] |}, None)
      else (s, None)
  | FRead f =>
      match nth_error (sfields s) f with
      | Some v => ({| sclient := sclient s ++ [v]; sowned := length (sclient s) :: sowned s; sfields := sfields s |}, Some v)
      | None => (s, None)
      end
  | FLibAdd f x =>
      match nth_error (sfields s) f with
      | Some v => ({| sclient := sclient s; sowned := sowned s; sfields := setf f (v ++ [x]) (sfields s) |}, None)
      | None => (s, None)
      end
  | FLibDel f x =>
      match nth_error (sfields s) f with
      | Some v => ({| sclient := sclient s; sowned := sowned s; sfields := setf f (remove1 x v) (sfields s) |}, None)
      | None => (s, None)
      end
  | FClient loc xs =>
      if memn loc (sowned s) then ({| sclient := set loc xs (sclient s); sowned := sowned s; sfields := sfields s |}, None)
      else (s, None)
  end.
Fixpoint sanswers (s : sstate) (ops : list fop) : list (option (list nat)) :=
  match ops with
  | [] => []
  | o :: r => let '(s', a) := sstep s o in a :: sanswers s' r
  end.
Fixpoint srun (s : sstate) (ops : list fop) : sstate :=
  match ops with [] => s | o :: r => srun (fst (sstep s o)) r end.

(* ---------- correspondence (FieldAliasCheck) ---------- *)
Definition lleqb (a b : list nat) : bool := if list_eq_dec Nat.eq_dec a b then true else false.
Definition oleqb (a b : option (list nat)) : bool :=
  match a, b with Some x, Some y => lleqb x y | None, None => true | _, _ => false end.
Fixpoint olleqb (a b : list (option (list nat))) : bool :=
  match a, b with
  | [], [] => true
  | x :: r, y :: r' => oleqb x y && olleqb r r'
  | _, _ => false
  end.
(* a case = a history + what the implementation answered at each accessor call *)
Definition fcheck (c : list fop * list (option (list nat))) : bool :=
  olleqb (fanswers true true finit (fst c)) (snd c).
