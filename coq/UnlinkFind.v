(* UnlinkFind.v — what helpers.find_links() returns after explicit.unlink(a, b).

   Setting (as in RefProofs.unlink_effect):  Inv s,  well_typed s (Unlink a b destroy) = true,
   find_links (fun _ _ => true) s a b false UErr None = FOk links   (the call unlink() itself makes),
   s' := fst (step s (Unlink a b destroy)).  `ffl` is an arbitrary filter table and `ds u f` are
   arbitrary settings (direction_sensitive, unknown_handling, filterfunc) of the later query.

   1. find_links_empty_after_unlink   (CHOSEN STATEMENT: no extra hypothesis, disjunction for (b,a))
        find_links ffl s' a b ds u f = FOk [] /\
        (find_links ffl s' b a ds u f = FOk [] \/ find_links ffl s' b a ds u f = FErr IndexError)
      The conjunction "... = FOk [] /\ ... = FOk []" is FALSE in general: a link [Some b] that lost an end
      (NewEdge k (Some a) (Some b); LUnlinkFrom l (Some a)) stays listed at b, and TwoEndedLink.other()
      raises IndexError on it, before and after the unlink (history `lost_end_history` below).
      No other exception is possible, and no link is ever returned.
      find_links_empty_after_unlink_two_ended   the intended conjunction, under
        (forall l, In l (vl s b) -> 2 <= length (lv s l))
      find_links_ba_ok_iff   the (b,a) query returns (FOk []) after the unlink IFF every link listed at b
        had at least two entries before it (so the extra hypothesis above is also necessary)
      find_links_empty_after_unlink_proper   the conjunction under `proper s`

   2. find_links_other_pairs_unchanged
        proper s -> ~ (c = a /\ d = b) -> ~ (c = b /\ d = a) ->
        find_links ffl s' c d ds u f = find_links ffl s c d ds u f
      where  proper s := forall x l, In l (vl s x) -> exists p q, lv s l = [Some p; Some q]
      (every listed link has exactly two entries, both assigned; under the association invariant this is
      the same as the formulation quantifying over `In (Some x) (lv s l) \/ In l (vl s x)`: proper_iff).
      find_links_other_pairs_unchanged_gen is the same under the weaker hypothesis that only the
      links being removed are of that shape (forall l, In l links -> exists p q, lv s l = [Some p; Some q]).
      The hypothesis cannot be dropped: a link [Some a; Some b; Some c] becomes [Some c] and makes every
      later find_links(c, _) raise IndexError.

   3. unlinkfind_example   a concrete history: vertices 0 1 2, parallel links 3 (directed 0->1),
      4 (undirected 0-1), 5 (neither edge class, 1->0), link 6 (undirected 1-2), self-loop 7 at 1.
      Inv and proper hold (properb / properb_correct), unlink(0, 1) removes {3,4,5}; afterwards
      (0,1) and (1,0) are empty for every filter table / setting, (1,2) still yields [6] and (1,1) [7].

   Both RefProofs.joins and NbrsProofs.joins exist; they are the same term up to conversion (joins_same).

   Proof file: no axioms, stdlib only (Print Assumptions at the end). *)
From EG Require Import Base Lemmas Lemmas2 State StateLemmas Nbrs Struct LinkProofs NbrsProofs RefProofs.

Lemma joins_same s l a b : RefProofs.joins s l a b = NbrsProofs.joins s l a b.
Proof. reflexivity. Qed.

(* ------------------------------------------------------------------------------------------ *)
(* 0. the per-link cascade reads only lv s l and kd s l                                         *)
Lemma other_ext s s' l e : lv s' l = lv s l -> other s' l e = other s l e.
Proof. intro H. unfold other, lv1, lv2. now rewrite H. Qed.

Lemma fl_link_ext ffl s s' a b ds u f l : lv s' l = lv s l -> kd s' l = kd s l ->
  fl_link ffl s' a b ds u f l = fl_link ffl s a b ds u f l.
Proof. intros H K. unfold fl_link, is_end1, lv1. now rewrite (other_ext s s' l _ H), H, K. Qed.

Lemma fl_loop_ext ffl s s' a b ds u f : forall ls acc,
  (forall l, In l ls -> lv s' l = lv s l /\ kd s' l = kd s l) ->
  fl_loop ffl s' a b ds u f ls acc = fl_loop ffl s a b ds u f ls acc.
Proof.
  induction ls as [|l ls IH]; intros acc H; cbn [fl_loop]; [reflexivity|].
  destruct (H l (or_introl eq_refl)) as [HL HK]. rewrite (fl_link_ext ffl s s' a b ds u f l HL HK).
  assert (H' : forall k, In k ls -> lv s' k = lv s k /\ kd s' k = kd s k) by (intros; apply H; now right).
  destruct (fl_link ffl s a b ds u f l); [apply IH| apply IH|reflexivity]; exact H'.
Qed.

(* a list of links that are all skipped, or skipped / raising IndexError *)
Lemma fl_loop_all_skip ffl s a b ds u f : forall ls acc,
  (forall l, In l ls -> fl_link ffl s a b ds u f l = FSkip) -> fl_loop ffl s a b ds u f ls acc = FOk acc.
Proof.
  induction ls as [|l ls IH]; intros acc H; cbn [fl_loop]; [reflexivity|].
  rewrite (H l (or_introl eq_refl)). apply IH. intros; apply H; now right.
Qed.

Lemma fl_loop_skip_or_index ffl s a b ds u f : forall ls acc,
  (forall l, In l ls -> fl_link ffl s a b ds u f l = FSkip \/ fl_link ffl s a b ds u f l = FRaise IndexError) ->
  fl_loop ffl s a b ds u f ls acc = FOk acc \/ fl_loop ffl s a b ds u f ls acc = FErr IndexError.
Proof.
  induction ls as [|l ls IH]; intros acc H; cbn [fl_loop]; [now left|].
  destruct (H l (or_introl eq_refl)) as [-> | ->]; [|now right].
  apply IH. intros; apply H; now right.
Qed.

Lemma fl_loop_ok_no_raise ffl s a b ds u f : forall ls acc out,
  fl_loop ffl s a b ds u f ls acc = FOk out -> forall l, In l ls -> forall e, fl_link ffl s a b ds u f l <> FRaise e.
Proof.
  induction ls as [|l ls IH]; intros acc out H k Hk e; [destruct Hk|]. cbn [fl_loop] in H.
  destruct Hk as [<-|Hk].
  - destruct (fl_link ffl s a b ds u f l); discriminate.
  - destruct (fl_link ffl s a b ds u f l); [eapply IH; eauto|eapply IH; eauto|discriminate].
Qed.

(* dropping skipped links from the list does not change the answer *)
Lemma fl_loop_filter_skip ffl s a b ds u f (g : nat -> bool) : forall ls acc,
  (forall l, In l ls -> g l = false -> fl_link ffl s a b ds u f l = FSkip) ->
  fl_loop ffl s a b ds u f (filter g ls) acc = fl_loop ffl s a b ds u f ls acc.
Proof.
  induction ls as [|l ls IH]; intros acc H; cbn [filter fl_loop]; [reflexivity|].
  assert (H' : forall k, In k ls -> g k = false -> fl_link ffl s a b ds u f k = FSkip) by (intros; apply H; auto; now right).
  destruct (g l) eqn:G.
  - cbn [fl_loop]. destruct (fl_link ffl s a b ds u f l); [apply IH|apply IH|reflexivity]; exact H'.
  - rewrite (H l (or_introl eq_refl) G). apply IH. exact H'.
Qed.

(* the first test of the cascade *)
Lemma fl_link_not_joining ffl s a b ds u f l o :
  other s l (Some a) = OVal o -> o <> Some b -> fl_link ffl s a b ds u f l = FSkip.
Proof. intros E N. unfold fl_link. rewrite E. apply oeqb_neq in N. now rewrite N. Qed.

Lemma fl_link_other_err ffl s a b ds u f l :
  other s l (Some a) = OErr -> fl_link ffl s a b ds u f l = FRaise IndexError.
Proof. intros E. unfold fl_link. now rewrite E. Qed.

(* other() is symmetric on a pair of vertices: only the first two entries matter *)
Lemma other_pair_sym s l a b : other s l (Some b) = OVal (Some a) ->
  other s l (Some a) = OVal (Some b) /\ In (Some a) (lv s l) /\ In (Some b) (lv s l).
Proof.
  intro H. destruct (other_val_inv _ _ _ _ H) as (x & y & t & Hl & Ho).
  rewrite (other_two _ _ _ _ _ _ Hl), Hl. symmetry in Ho. apply other2_some_inv in Ho.
  destruct Ho as [[-> ->]|(-> & -> & Hn)]; unfold other2; cbn [oeqb In].
  - rewrite Nat.eqb_refl. destruct (Nat.eqb_spec a b) as [->|N]; auto 6.
  - rewrite Nat.eqb_refl. auto 6.
Qed.

Lemma other_err_short s l e : other s l e = OErr <-> length (lv s l) < 2.
Proof.
  unfold other, lv1, lv2. destruct (lv s l) as [|x [|y t]]; cbn.
  - split; [lia|reflexivity].
  - destruct (oeqb e x); split; auto; lia.
  - destruct (oeqb e x); [split; [discriminate|lia]|]. destruct (oeqb e y); split; try discriminate; lia.
Qed.

(* ------------------------------------------------------------------------------------------ *)
(* 1. after unlink(a, b) nothing joins a to b or b to a                                         *)
Section AfterUnlink.
  Variable ffl : nat -> nat -> bool.
  Variables (s : state) (a b : nat) (destroy : bool) (links : list nat).
  Hypothesis HI : Inv s.
  Hypothesis WT : well_typed s (Unlink a b destroy) = true.
  Hypothesis EF : find_links (fun _ _ => true) s a b false UErr None = FOk links.
  Let s' := fst (step s (Unlink a b destroy)).

  (* the facts of unlink_effect used below *)
  Lemma unlink_reads :
    (forall l, In l links <-> In l (vl s a) /\ other s l (Some a) = OVal (Some b)) /\
    (forall l, In l (vl s a) -> other s l (Some a) <> OErr) /\
    (forall w, vl s' w = if Nat.eqb w a || Nat.eqb w b
                         then filter (fun l => negb (memn l links)) (vl s w) else vl s w) /\
    (forall l, ~ In l links -> lv s' l = lv s l) /\
    (forall i, kd s' i = kd s i).
  Proof.
    destruct (unlink_effect s a b destroy links HI WT EF) as (EL & _ & _ & V & L & _ & _ & K).
    fold s' in V, L, K.
    split; [|split; [|split; [exact V|split; [exact L|exact K]]]].
    - intro l. rewrite EL, filter_In. unfold RefProofs.joins.
      destruct (other s l (Some a)) as [|o]; [split; [intros [_ ?]; discriminate|intros [_ ?]; discriminate]|].
      rewrite oeqb_eq. split; intros [H1 H2]; split; congruence.
    - intros l Hl E.
      apply (find_links_ok_noraise _ _ _ _ _ _ _ _ EF l Hl IndexError).
      unfold fl_spec_link. now rewrite E.
  Qed.

  Lemma in_vl'_a l : In l (vl s' a) -> In l (vl s a) /\ ~ In l links.
  Proof.
    destruct unlink_reads as (_ & _ & V & _). rewrite V, Nat.eqb_refl. cbn [orb].
    rewrite filter_In, negb_true_iff, memn_nIn. tauto.
  Qed.
  Lemma in_vl'_b l : In l (vl s' b) -> In l (vl s b) /\ ~ In l links.
  Proof.
    destruct unlink_reads as (_ & _ & V & _). rewrite V, Nat.eqb_refl, orb_true_r.
    rewrite filter_In, negb_true_iff, memn_nIn. tauto.
  Qed.

  (* (a, b): every remaining link of a is skipped by the first test *)
  Lemma fl_link_ab_skip ds u f l : In l (vl s' a) -> fl_link ffl s' a b ds u f l = FSkip.
  Proof.
    intro Hl. destruct unlink_reads as (EL & NR & _ & L & K).
    apply in_vl'_a in Hl. destruct Hl as [Hl Hn].
    rewrite (fl_link_ext ffl s s' a b ds u f l (L l Hn) (K l)).
    destruct (other s l (Some a)) as [|o] eqn:E; [exfalso; now apply (NR l Hl)|].
    apply (fl_link_not_joining _ _ _ _ _ _ _ _ o E). intros ->. apply Hn. apply EL. auto.
  Qed.

  (* (b, a): every remaining link of b is skipped, or has fewer than two entries *)
  Lemma fl_link_ba_skip ds u f l : In l (vl s' b) ->
    (2 <= length (lv s l) /\ fl_link ffl s' b a ds u f l = FSkip) \/
    (length (lv s l) < 2 /\ fl_link ffl s' b a ds u f l = FRaise IndexError).
  Proof.
    intro Hl. destruct unlink_reads as (EL & _ & _ & L & K).
    apply in_vl'_b in Hl. destruct Hl as [Hl Hn].
    rewrite (fl_link_ext ffl s s' b a ds u f l (L l Hn) (K l)).
    destruct (other s l (Some b)) as [|o] eqn:E.
    - right. split; [now apply (other_err_short s l (Some b))|now apply fl_link_other_err].
    - left. split.
      + destruct (Nat.lt_ge_cases (length (lv s l)) 2) as [H|H]; [|exact H].
        apply (other_err_short s l (Some b)) in H. congruence.
      + apply (fl_link_not_joining _ _ _ _ _ _ _ _ o E). intros ->.
        destruct (other_pair_sym s l a b E) as (E' & Ia & _).
        apply Hn. apply EL. split; [|exact E']. destruct HI as (_ & [Ha _] & _). now apply Ha.
  Qed.

  Theorem find_links_empty_after_unlink_sec ds u f :
    find_links ffl s' a b ds u f = FOk [] /\
    (find_links ffl s' b a ds u f = FOk [] \/ find_links ffl s' b a ds u f = FErr IndexError).
  Proof.
    unfold find_links. split.
    - apply fl_loop_all_skip. intros l Hl. now apply fl_link_ab_skip.
    - apply fl_loop_skip_or_index. intros l Hl.
      destruct (fl_link_ba_skip ds u f l Hl) as [[_ H]|[_ H]]; auto.
  Qed.

  (* links listed at b before the unlink: removed ones had two entries *)
  Lemma removed_two_entries l : In l links -> 2 <= length (lv s l).
  Proof.
    intro Hl. destruct unlink_reads as (EL & _). apply EL in Hl. destruct Hl as [_ E].
    destruct (Nat.lt_ge_cases (length (lv s l)) 2) as [H|H]; [|exact H].
    apply (other_err_short s l (Some a)) in H. congruence.
  Qed.

  Theorem find_links_ba_ok_iff_sec ds u f :
    find_links ffl s' b a ds u f = FOk [] <-> (forall l, In l (vl s b) -> 2 <= length (lv s l)).
  Proof.
    split.
    - intros H l Hl. destruct (in_dec Nat.eq_dec l links) as [Hin|Hn]; [now apply removed_two_entries|].
      assert (Hl' : In l (vl s' b)).
      { destruct unlink_reads as (_ & _ & V & _). rewrite V, Nat.eqb_refl, orb_true_r.
        rewrite filter_In, negb_true_iff, memn_nIn. auto. }
      destruct (fl_link_ba_skip ds u f l Hl') as [[H2 _]|[_ H2]]; [exact H2|].
      exfalso. unfold find_links in H. apply (fl_loop_ok_no_raise _ _ _ _ _ _ _ _ _ _ H l Hl' IndexError H2).
    - intro H. unfold find_links. apply fl_loop_all_skip. intros l Hl.
      destruct (fl_link_ba_skip ds u f l Hl) as [[_ H2]|[H2 _]]; [exact H2|].
      apply in_vl'_b in Hl. destruct Hl as [Hl _]. specialize (H l Hl). lia.
  Qed.
End AfterUnlink.

Theorem find_links_empty_after_unlink : forall ffl s a b destroy links ds u f,
  Inv s -> well_typed s (Unlink a b destroy) = true ->
  find_links (fun _ _ => true) s a b false UErr None = FOk links ->
  let s' := fst (step s (Unlink a b destroy)) in
  find_links ffl s' a b ds u f = FOk [] /\
  (find_links ffl s' b a ds u f = FOk [] \/ find_links ffl s' b a ds u f = FErr IndexError).
Proof. intros. now apply (find_links_empty_after_unlink_sec ffl s a b destroy links). Qed.

Theorem find_links_ba_ok_iff : forall ffl s a b destroy links ds u f,
  Inv s -> well_typed s (Unlink a b destroy) = true ->
  find_links (fun _ _ => true) s a b false UErr None = FOk links ->
  let s' := fst (step s (Unlink a b destroy)) in
  find_links ffl s' b a ds u f = FOk [] <-> (forall l, In l (vl s b) -> 2 <= length (lv s l)).
Proof. intros. now apply (find_links_ba_ok_iff_sec ffl s a b destroy links). Qed.

Theorem find_links_empty_after_unlink_two_ended : forall ffl s a b destroy links ds u f,
  Inv s -> well_typed s (Unlink a b destroy) = true ->
  find_links (fun _ _ => true) s a b false UErr None = FOk links ->
  (forall l, In l (vl s b) -> 2 <= length (lv s l)) ->
  let s' := fst (step s (Unlink a b destroy)) in
  find_links ffl s' a b ds u f = FOk [] /\ find_links ffl s' b a ds u f = FOk [].
Proof.
  intros ffl s a b destroy links ds u f HI WT EF H2 s'. split.
  - apply (find_links_empty_after_unlink ffl s a b destroy links ds u f HI WT EF).
  - apply (find_links_ba_ok_iff ffl s a b destroy links ds u f HI WT EF). exact H2.
Qed.

(* ------------------------------------------------------------------------------------------ *)
(* 2. the other ordered pairs                                                                   *)
Definition proper (s : state) : Prop :=
  forall x l, In l (vl s x) -> exists p q, lv s l = [Some p; Some q].

(* under the association invariant: the formulation that also quantifies over the entries of links *)
Lemma proper_iff s : link_inv s ->
  (proper s <-> forall l x, In (Some x) (lv s l) \/ In l (vl s x) -> exists p q, lv s l = [Some p; Some q]).
Proof.
  intros [Ha _]. split.
  - intros P l x [H|H]; [apply (P x), Ha, H|apply (P x), H].
  - intros P x l H. apply (P l x). now right.
Qed.

Corollary find_links_empty_after_unlink_proper : forall ffl s a b destroy links ds u f,
  Inv s -> well_typed s (Unlink a b destroy) = true ->
  find_links (fun _ _ => true) s a b false UErr None = FOk links ->
  proper s ->
  let s' := fst (step s (Unlink a b destroy)) in
  find_links ffl s' a b ds u f = FOk [] /\ find_links ffl s' b a ds u f = FOk [].
Proof.
  intros ffl s a b destroy links ds u f HI WT EF P.
  apply (find_links_empty_after_unlink_two_ended ffl s a b destroy links ds u f HI WT EF).
  intros l Hl. destruct (P b l Hl) as (p & q & ->). cbn. lia.
Qed.

(* a two-entry link joining a to b has exactly the entries a, b *)
Lemma two_entries_joining s l a b p q : lv s l = [Some p; Some q] -> other s l (Some a) = OVal (Some b) ->
  (p = a /\ q = b) \/ (p = b /\ q = a).
Proof.
  intros Hl E. rewrite (other_two _ _ _ _ _ _ Hl) in E. injection E as E. apply other2_some_inv in E.
  destruct E as [[E1 E2]|(E1 & E2 & _)]; injection E1 as ->; injection E2 as ->; auto.
Qed.

Section OtherPairs.
  Variable ffl : nat -> nat -> bool.
  Variables (s : state) (a b : nat) (destroy : bool) (links : list nat).
  Hypothesis HI : Inv s.
  Hypothesis WT : well_typed s (Unlink a b destroy) = true.
  Hypothesis EF : find_links (fun _ _ => true) s a b false UErr None = FOk links.
  Hypothesis PL : forall l, In l links -> exists p q, lv s l = [Some p; Some q].
  Let s' := fst (step s (Unlink a b destroy)).

  (* a removed link has entries {a, b}, in one order or the other *)
  Lemma removed_shape l : In l links ->
    lv s l = [Some a; Some b] \/ lv s l = [Some b; Some a].
  Proof.
    intro Hl. destruct (PL l Hl) as (p & q & E).
    destruct (unlink_reads s a b destroy links HI WT EF) as (EL & _). apply EL in Hl. destruct Hl as [_ J].
    destruct (two_entries_joining s l a b p q E J) as [[-> ->]|[-> ->]]; auto.
  Qed.

  (* seen from a it leads to b, seen from b it leads to a; seen from anywhere else it is not even listed *)
  Lemma removed_other l c : In l links -> In l (vl s c) ->
    (c = a /\ other s l (Some c) = OVal (Some b)) \/ (c = b /\ other s l (Some c) = OVal (Some a)).
  Proof.
    intros Hl Hc. destruct HI as (_ & [Ha _] & _). apply Ha in Hc.
    destruct (removed_shape l Hl) as [E|E]; rewrite E in Hc; rewrite (other_two _ _ _ _ _ _ E);
      unfold other2; cbn [oeqb]; destruct Hc as [Hc|[Hc|[]]]; injection Hc as Hc; subst c; rewrite ?Nat.eqb_refl.
    - now left.
    - right. split; [reflexivity|]. destruct (Nat.eqb_spec b a) as [e|N]; [rewrite e|]; reflexivity.
    - right. split; reflexivity.
    - left. split; [reflexivity|]. destruct (Nat.eqb_spec a b) as [e|N]; [rewrite e|]; reflexivity.
  Qed.

  Lemma removed_skipped c d ds u f l : ~ (c = a /\ d = b) -> ~ (c = b /\ d = a) ->
    In l links -> In l (vl s c) -> fl_link ffl s c d ds u f l = FSkip.
  Proof.
    intros N1 N2 Hl Hc. destruct (removed_other l c Hl Hc) as [[-> E]|[-> E]];
      apply (fl_link_not_joining _ _ _ _ _ _ _ _ _ E); intros [= <-]; tauto.
  Qed.

  Theorem find_links_other_pairs_unchanged_sec c d ds u f : ~ (c = a /\ d = b) -> ~ (c = b /\ d = a) ->
    find_links ffl s' c d ds u f = find_links ffl s c d ds u f.
  Proof.
    intros N1 N2. destruct (unlink_reads s a b destroy links HI WT EF) as (_ & _ & V & L & K).
    fold s' in V, L, K. unfold find_links.
    (* the new list is the old one without the removed links *)
    assert (EV : vl s' c = filter (fun l => negb (memn l links)) (vl s c)).
    { rewrite V. destruct (Nat.eqb c a || Nat.eqb c b) eqn:Ec; [reflexivity|].
      symmetry. apply filter_id. intros l Hl. apply negb_true_iff, memn_nIn. intro Hin.
      apply orb_false_iff in Ec. destruct Ec as [Ea Eb]. apply Nat.eqb_neq in Ea, Eb.
      destruct (removed_other l c Hin Hl) as [[? _]|[? _]]; contradiction. }
    rewrite EV.
    rewrite (fl_loop_ext ffl s s' c d ds u f).
    - apply fl_loop_filter_skip. intros l Hl G. apply negb_false_iff, memn_In in G.
      now apply removed_skipped.
    - intros l Hl. apply filter_In in Hl. destruct Hl as [_ G]. apply negb_true_iff, memn_nIn in G.
      split; [now apply L|apply K].
  Qed.
End OtherPairs.

Theorem find_links_other_pairs_unchanged_gen : forall ffl s a b destroy links c d ds u f,
  Inv s -> well_typed s (Unlink a b destroy) = true ->
  find_links (fun _ _ => true) s a b false UErr None = FOk links ->
  (forall l, In l links -> exists p q, lv s l = [Some p; Some q]) ->
  ~ (c = a /\ d = b) -> ~ (c = b /\ d = a) ->
  let s' := fst (step s (Unlink a b destroy)) in
  find_links ffl s' c d ds u f = find_links ffl s c d ds u f.
Proof. intros. now apply (find_links_other_pairs_unchanged_sec ffl s a b destroy links). Qed.

Theorem find_links_other_pairs_unchanged : forall ffl s a b destroy links c d ds u f,
  Inv s -> well_typed s (Unlink a b destroy) = true ->
  find_links (fun _ _ => true) s a b false UErr None = FOk links ->
  proper s ->
  ~ (c = a /\ d = b) /\ ~ (c = b /\ d = a) ->
  let s' := fst (step s (Unlink a b destroy)) in
  find_links ffl s' c d ds u f = find_links ffl s c d ds u f.
Proof.
  intros ffl s a b destroy links c d ds u f HI WT EF P [N1 N2].
  apply (find_links_other_pairs_unchanged_gen ffl s a b destroy links c d ds u f HI WT EF); auto.
  intros l Hl. apply (P a).
  apply (find_links_only_listed _ _ _ _ _ _ _ _ EF l Hl).
Qed.

(* ------------------------------------------------------------------------------------------ *)
(* 3. non-vacuity                                                                               *)
Definition two_assigned (X : list (option nat)) : bool :=
  match X with [Some _; Some _] => true | _ => false end.
Definition properb (s : state) : bool :=
  forallb (fun x => forallb (fun l => two_assigned (lv s l)) (vl s x)) (seq 0 (length (vlinks s))).

Lemma properb_correct s : properb s = true -> proper s.
Proof.
  unfold properb. rewrite forallb_forall. intros H x l Hl.
  destruct (Nat.lt_ge_cases x (length (vlinks s))) as [Hx|Hx].
  - assert (Hs : In x (seq 0 (length (vlinks s)))) by (apply in_seq; lia).
    specialize (H x Hs). rewrite forallb_forall in H. specialize (H l Hl).
    unfold two_assigned in H. destruct (lv s l) as [|[p|] [|[q|] [|? ?]]]; try discriminate. now exists p, q.
  - exfalso. unfold vl, get in Hl. rewrite nth_overflow in Hl by exact Hx. destruct Hl.
Qed.

Definition example_history : list op :=
  [NewVertex false [] []; NewVertex false [] []; NewVertex false [] [];
   NewEdge KDir (Some 0) (Some 1); NewEdge KUnd (Some 0) (Some 1); NewEdge KOther (Some 1) (Some 0);
   NewEdge KUnd (Some 1) (Some 2); NewEdge KDir (Some 1) (Some 1)].

Example unlinkfind_example :
  let s := run example_history empty in
  let s' := fst (step s (Unlink 0 1 false)) in
  (* the hypotheses of the theorems hold *)
  Inv s /\ proper s /\ well_typed s (Unlink 0 1 false) = true /\
  find_links (fun _ _ => true) s 0 1 false UErr None = FOk [3; 4; 5] /\
  snd (step s (Unlink 0 1 false)) = Ret (VSet [3; 4; 5]) /\
  (* before: parallel links of three classes between 0 and 1, in both directions of query *)
  find_links std_ffl s 0 1 false UErr None = FOk [3; 4; 5] /\
  find_links std_ffl s 1 0 false UErr None = FOk [3; 4; 5] /\
  find_links std_ffl s 0 1 true UNb None = FOk [3; 4; 5] /\
  find_links std_ffl s 1 0 true UNon None = FOk [4] /\
  (* after: (0,1) and (1,0) are empty whatever the filter table and the settings ... *)
  (forall ffl ds u f, find_links ffl s' 0 1 ds u f = FOk [] /\ find_links ffl s' 1 0 ds u f = FOk []) /\
  (* ... and every other pair answers as before; in particular 1-2 and the self-loop at 1 *)
  (forall ffl c d ds u f, ~ (c = 0 /\ d = 1) /\ ~ (c = 1 /\ d = 0) ->
     find_links ffl s' c d ds u f = find_links ffl s c d ds u f) /\
  find_links std_ffl s' 1 2 false UErr None = FOk [6] /\
  find_links std_ffl s' 2 1 true UErr None = FOk [6] /\
  find_links std_ffl s' 1 1 true UErr None = FOk [7].
Proof.
  intros s s'.
  assert (HI : Inv s).
  { apply Inv_reachable. intros o u0 Ho. unfold example_history in Ho. cbn [In] in Ho.
    repeat (destruct Ho as [<-|Ho]; [discriminate|]). destruct Ho. }
  assert (P : proper s) by (apply properb_correct; vm_compute; reflexivity).
  assert (WT : well_typed s (Unlink 0 1 false) = true) by (vm_compute; reflexivity).
  assert (EF : find_links (fun _ _ => true) s 0 1 false UErr None = FOk [3; 4; 5]) by (vm_compute; reflexivity).
  split; [exact HI|]. split; [exact P|]. split; [exact WT|]. split; [exact EF|].
  split; [vm_compute; reflexivity|].
  split; [vm_compute; reflexivity|]. split; [vm_compute; reflexivity|].
  split; [vm_compute; reflexivity|]. split; [vm_compute; reflexivity|].
  split. { intros ffl ds u f. apply (find_links_empty_after_unlink_proper ffl s 0 1 false [3; 4; 5] ds u f HI WT EF P). }
  split. { intros ffl c d ds u f N. apply (find_links_other_pairs_unchanged ffl s 0 1 false [3; 4; 5] c d ds u f HI WT EF P N). }
  split; [vm_compute; reflexivity|]. split; vm_compute; reflexivity.
Qed.

(* the conjunction form of target 1 is false without a hypothesis on the links listed at b *)
Definition lost_end_history : list op :=
  [NewVertex false [] []; NewVertex false [] []; NewEdge KUnd (Some 0) (Some 1); LUnlinkFrom 2 (Some 0);
   NewEdge KUnd (Some 0) (Some 1)].
Example lost_end_counterexample :
  let s := run lost_end_history empty in
  let s' := fst (step s (Unlink 0 1 false)) in
  Inv s /\ well_typed s (Unlink 0 1 false) = true /\
  find_links (fun _ _ => true) s 0 1 false UErr None = FOk [3] /\
  lv s 2 = [Some 1] /\ vl s 1 = [2; 3] /\
  find_links std_ffl s 1 0 false UErr None = FErr IndexError /\
  find_links std_ffl s' 0 1 false UErr None = FOk [] /\
  find_links std_ffl s' 1 0 false UErr None = FErr IndexError.
Proof.
  intros s s'. split.
  { apply Inv_reachable. intros o u0 Ho. unfold lost_end_history in Ho. cbn [In] in Ho.
    repeat (destruct Ho as [<-|Ho]; [discriminate|]). destruct Ho. }
  repeat split; vm_compute; reflexivity.
Qed.

Print Assumptions find_links_empty_after_unlink.
Print Assumptions find_links_ba_ok_iff.
Print Assumptions find_links_empty_after_unlink_two_ended.
Print Assumptions find_links_empty_after_unlink_proper.
Print Assumptions find_links_other_pairs_unchanged_gen.
Print Assumptions find_links_other_pairs_unchanged.
Print Assumptions unlinkfind_example.
Print Assumptions lost_end_counterexample.
