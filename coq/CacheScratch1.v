From EG Require Import Base Lemmas Lemmas2 State StateLemmas Nbrs Struct Footprint StateRw Ref RefStep Cache.
From EG Require Import LinkProofs LinkStep.
From EG Require LawsProofs UniProofs RefProofs.
Import RefProofs.
From EG Require Import CacheProofs.

(* 3.4 allocation, and the operations that never touch vlinks / lverts / kind / cache *)
Lemma ca_outside s i : wf s -> next s <= i -> ca s i = [].
Proof. intros W H. unfold ca. apply get_default. wf_crush. Qed.
Lemma ca_alloc_all s k w : wf s -> ca (alloc k s) w = ca s w.
Proof.
  intro W. destruct (Nat.lt_ge_cases w (next s)) as [Hlt|Hge]; [now apply ca_alloc_old|].
  rewrite (ca_outside s w) by auto.
  destruct (Nat.eq_dec w (next s)) as [->|N].
  - unfold ca, alloc; cbn [cache]. destruct W as (_ & _ & _ & _ & _ & _ & H0). rewrite <- H0. apply get_app_new.
  - apply ca_outside; [auto with st|]. rewrite next_alloc. lia.
Qed.
Lemma frame_alloc s k : wf s -> link_inv s -> frame s (alloc k s).
Proof.
  intros W I w. right. split; [now apply ca_alloc_all|]. split; [now apply vl_alloc_all|].
  intros l Hl. split; [now apply lv_alloc_all|]. apply kd_alloc_old; auto. now apply (link_inv_valid' s w l).
Qed.

Definition same4 (s s' : state) : Prop :=
  vlinks s' = vlinks s /\ lverts s' = lverts s /\ kind s' = kind s /\ cache s' = cache s.
Lemma same4_refl s : same4 s s. Proof. repeat split. Qed.
Lemma same4_trans s1 s2 s3 : same4 s1 s2 -> same4 s2 s3 -> same4 s1 s3.
Proof. intros (A1 & B1 & C1 & D1) (A2 & B2 & C2 & D2). repeat split; congruence. Qed.
Lemma same4_frame s s' : same4 s s' -> frame s s'.
Proof.
  intros (A & B & C & D) w. right. unfold ca, vl, lv, kd. rewrite A, B, C, D.
  split; [reflexivity|]. split; [reflexivity|]. intros; split; reflexivity.
Qed.
Ltac same4_tac := repeat match goal with
  | |- context [if ?b then _ else _] => destruct b
  | |- context [match ?x with Some _ => _ | None => _ end] => destruct x
  end; cbn [res_state]; repeat split.
Lemma same4_r_u_add_vertex s u v : same4 s (res_state (r_u_add_vertex s u v)).
Proof. unfold r_u_add_vertex. same4_tac. Qed.
Lemma same4_r_v_add_to_universe s v u : same4 s (res_state (r_v_add_to_universe s v u)).
Proof. unfold r_v_add_to_universe. same4_tac. Qed.
Lemma same4_r_u_remove_vertex s u v : same4 s (res_state (r_u_remove_vertex s u v)).
Proof. unfold r_u_remove_vertex. same4_tac. Qed.
Lemma same4_r_v_remove_from_universe s v u : same4 s (res_state (r_v_remove_from_universe s v u)).
Proof. unfold r_v_remove_from_universe. same4_tac. Qed.
Lemma same4_r_set_laws s u oL : same4 s (r_set_laws s u oL).
Proof. unfold r_set_laws, r_detach_la, r_detach_ul. same4_tac. Qed.
Lemma same4_r_set_applies s L ou : same4 s (r_set_applies s L ou).
Proof. unfold r_set_applies, r_detach_la, r_detach_ul. same4_tac. Qed.
Lemma same4_seq_res f xs : (forall s x, same4 s (res_state (f s x))) ->
  forall s, same4 s (res_state (seq_res f xs s)).
Proof.
  intro Hf. induction xs as [|x r IH]; intro s; cbn [seq_res]; [apply same4_refl|].
  pose proof (Hf s x) as H. destruct (f s x) as [s1|e s1]; cbn [bind res_state] in *.
  - eapply same4_trans; [exact H|apply IH].
  - exact H.
Qed.

(* 3.5 the loops and the constructors *)
Lemma frame_nv_links v : forall ls s, wf s -> link_inv s -> v < next s -> (forall l, In l ls -> l < next s) ->
  frame s (fold_left (fun s l => r_v_add_to_link s v l) ls s).
Proof.
  induction ls as [|l ls IH]; intros s W I Hv Hls; cbn [fold_left]; [apply frame_refl|].
  assert (Hl : l < next s) by (apply Hls; now left).
  destruct (vadd_eq s v l W Hv Hl) as (_ & W1 & N1).
  eapply frame_trans; [apply (frame_r_v_add_to_link s v l W I Hv Hl)|].
  apply IH; auto.
  - now apply r_v_add_to_link_inv.
  - now rewrite N1.
  - intros k Hk. rewrite N1. apply Hls. now right.
Qed.

Lemma frame_unlink_fold a b : forall links s, wf s -> link_inv s -> a < next s -> b < next s ->
  (forall l, In l links -> l < next s) ->
  frame s (fold_left (fun s l => r_l_unlink_from (r_l_unlink_from s l (Some a)) l (Some b)) links s).
Proof.
  induction links as [|l links IH]; intros s W I Ha Hb Hls; cbn [fold_left]; [apply frame_refl|].
  assert (Hl : l < next s) by (apply Hls; now left).
  set (t := r_l_unlink_from s l (Some a)).
  destruct (lunl_eq s l (Some a) W Hl) as (_ & Wt & Nt). { intros v [= <-]. exact Ha. } fold t in Wt, Nt.
  assert (It : link_inv t) by (apply r_l_unlink_from_inv; auto; intros v [= <-]; exact Ha).
  set (s1 := r_l_unlink_from t l (Some b)).
  destruct (lunl_eq t l (Some b) Wt) as (_ & W1 & N1). { now rewrite Nt. } { intros v [= <-]. now rewrite Nt. }
  fold s1 in W1, N1.
  assert (I1 : link_inv s1).
  { apply r_l_unlink_from_inv; auto; [now rewrite Nt|]. intros v [= <-]. now rewrite Nt. }
  eapply frame_trans; [apply (frame_r_l_unlink_from s l (Some a)); auto|]. fold t.
  eapply frame_trans; [apply (frame_r_l_unlink_from t l (Some b)); auto; now rewrite Nt|]. fold s1.
  apply IH; auto; rewrite ?N1, ?Nt; auto. intros k Hk. apply Hls. now right.
Qed.

Lemma frame_r_new_edge s k a b : wf s -> link_inv s ->
  (forall i, a = Some i -> i < next s) -> (forall i, b = Some i -> i < next s) ->
  frame s (res_state (fst (r_new_edge s k a b))).
Proof.
  intros W I Ha Hb. unfold r_new_edge. destruct (_ || _); cbn [fst res_state]; [apply frame_refl|].
  set (s0 := alloc k s).
  assert (W0 : wf s0) by (subst s0; auto with st).
  assert (I0 : link_inv s0) by (subst s0; now apply link_inv_alloc).
  assert (N0 : next s0 = S (next s)) by apply next_alloc.
  assert (Hl : next s < next s0) by lia.
  assert (Ha0 : forall v, a = Some v -> v < next s0) by (intros v Hv; specialize (Ha v Hv); lia).
  assert (Hb0 : forall v, b = Some v -> v < next s0) by (intros v Hv; specialize (Hb v Hv); lia).
  destruct (ladd_eq s0 (next s) a W0 Hl Ha0) as (_ & W1 & N1).
  assert (I1 : link_inv (r_l_add_vertex s0 (next s) a)) by now apply r_l_add_vertex_inv.
  eapply frame_trans; [apply (frame_alloc s k W I)|]. fold s0.
  eapply frame_trans; [apply (frame_r_l_add_vertex s0 (next s) a W0 I0 Hl)|].
  apply frame_r_l_add_vertex; auto. now rewrite N1.
Qed.

Lemma fst_let (p : res * outcome) : fst (let '(r, out) := p in (res_state r, out)) = res_state (fst p).
Proof. destruct p; reflexivity. Qed.

(* 3.6 every operation of the reference model *)
Lemma frame_r_step s o : wf s -> link_inv s -> frame s (fst (r_step s o)).
Proof.
  intros W I. unfold r_step. destruct (well_typed s o) eqn:WT; cbn [negb]; [|apply frame_refl].
  destruct o as [sub us ls|vs oL|ou|k a b|l ov|l ov|v l|v l|l ov|l ov|a k b dontdup|a b destroy
                |u v|u v|v u|v u|u oL|L ou|fl]; cbn [well_typed] in WT.
  - (* NewVertex *)
    apply andb_true_iff in WT as [WT1 WT2]. cbv zeta. rewrite fst_ok_or.
    set (K := if sub then KVertexSub else KVertex).
    set (v := next s). set (s0 := set_vu (alloc K s) v (dedup us)).
    assert (W0 : wf s0) by (subst s0; auto with st).
    assert (N0 : next s0 = S (next s)) by (subst s0; rewrite next_set_vu; apply next_alloc).
    assert (I0 : link_inv s0).
    { apply (same_links_inv (alloc K s)); [split; reflexivity|]. now apply link_inv_alloc. }
    eapply frame_trans; [apply (frame_alloc s K W I)|].
    eapply frame_trans; [apply (same4_frame (alloc K s) s0); repeat split|].
    eapply frame_trans.
    + apply (frame_nv_links v ls s0 W0 I0); [subst v; lia|].
      intros l Hl. pose proof (forallb_isl_lt _ _ WT2 l Hl). lia.
    + apply same4_frame, same4_seq_res. intros. apply same4_r_u_add_vertex.
  - (* NewUniverse *)
    cbv zeta. rewrite fst_ok_or.
    set (s0 := alloc KUniverse s).
    assert (W0 : wf s0) by (subst s0; auto with st).
    assert (I0 : link_inv s0) by (subst s0; now apply link_inv_alloc).
    eapply frame_trans; [apply (frame_alloc s KUniverse W I)|]. fold s0.
    eapply frame_trans; [|apply same4_frame, same4_seq_res; intros; apply same4_r_u_add_vertex].
    destruct oL as [L|].
    + apply same4_frame, same4_r_set_laws.
    + eapply frame_trans; [apply (frame_alloc s0 KLaws W0 I0)|]. apply same4_frame. repeat split.
  - (* NewLaws *)
    cbn [fst res_state]. eapply frame_trans; [apply (frame_alloc s KLaws W I)|]. apply same4_frame. repeat split.
  - (* NewEdge *)
    apply andb_true_iff in WT as [WT WTb]. apply andb_true_iff in WT as [WTk WTa].
    rewrite fst_let. apply frame_r_new_edge; auto; intros i ->; now apply valid_lt.
  - (* SetV1 *) wt_facts. rewrite fst_ok_or. apply frame_r_l_set_end; auto.
  - (* SetV2 *) wt_facts. rewrite fst_ok_or. apply frame_r_l_set_end; auto.
  - wt_facts. cbn [fst res_state]. now apply frame_r_v_add_to_link.
  - wt_facts. cbn [fst res_state]. now apply frame_r_v_remove_from_link.
  - wt_facts. cbn [fst res_state]. now apply frame_r_l_add_vertex.
  - wt_facts. cbn [fst res_state]. now apply frame_r_l_unlink_from.
  - (* LinkFromTo *)
    wt_facts. destruct (if dontdup then _ else _) as [[l|]|]; [apply frame_refl| |apply frame_refl].
    rewrite fst_let. apply frame_r_new_edge; auto; intros i [= <-]; auto.
  - (* Unlink *)
    wt_facts. destruct (find_links _ s a b false UErr None) as [links|e] eqn:EF; [|apply frame_refl].
    cbn [fst res_state]. apply frame_unlink_fold; auto.
    intros l Hl. eapply find_links_sub in Hl; [|exact EF]. now apply (link_inv_valid' s a l).
  - rewrite fst_ok_or. apply same4_frame, same4_r_u_add_vertex.
  - rewrite fst_ok_or. apply same4_frame, same4_r_u_remove_vertex.
  - rewrite fst_ok_or. apply same4_frame, same4_r_v_add_to_universe.
  - rewrite fst_ok_or. apply same4_frame, same4_r_v_remove_from_universe.
  - cbn [fst res_state]. apply same4_frame, same4_r_set_laws.
  - cbn [fst res_state]. apply same4_frame, same4_r_set_applies.
  - cbn [fst res_state]. apply same4_frame. repeat split.
Qed.

Theorem Coh_step : forall filt s o, Inv s -> (forall u, o <> NewLaws (Some u)) ->
  Coh filt s -> Coh filt (fst (step s o)).
Proof.
  intros filt s o HI NL C. rewrite (step_refines s o HI NL).
  destruct HI as (W & I & _ & _). apply (Coh_transfer filt s); [exact C|]. now apply frame_r_step.
Qed.
