(* RenderProofs.v — properties of the three renderers of Render.v (C14 PlantUML, C15 pyvis,
   C16 plain text).  Machine-checked, stdlib only, no axioms.

   Part P — plaintext.basic_render (C16)
     basic_render_empty            empty universe -> None
     basic_render_lines            one line per member, in universe order (or stably sorted order),
                                   line i = rendering ++ " -> " ++ renderings of the FORWARD
                                   neighbours joined by ", "; the lines are joined by newline
     isolated_vertex_line          a vertex without neighbours keeps its arrow
     pinned_line_eats_arrow        the pinned code turns "z -> " into "z -" (refutation witness)
     pinned_line_ok_when_neighbours  with >= 1 neighbour the pinned line equals the specified line
     sort_by_permutation / sort_by_sorted / sort_by_strongly_sorted / sort_by_stable
                                   sorted(key=..) is a stable sort
     basic_render_error (+ _iff, _some_iff)   an error is the error of neighbors() at the first
                                   failing member (in rendering order)

   Part V — pyvis.make_pyvis_net (C15)
     pyvis_nodes(_gen)             nodes = ids 0..n-1 in universe order (NoDup not even needed)
     pyvis_edges_oriented          every edge (i,j,arr) comes from a link e listed by member i whose
                                   v1 is member i and v2 is member j, arr = is_directed (class e)
                                   (so EVERY edge, arrowed or not, runs v1 -> v2)
     pyvis_edges_are_real          the requested statement (corollary)
     pyvis_no_outside_vertex       node ids / edge endpoints are indices < number of members
     pyvis_every_internal_link_joined(_assoc)   (link_inv; only `assoc` is used) every link between
                                   two members leaves their nodes joined in some orientation
                                   (self-loops included)
     pyvis_directed_count          count_occ of (i,j,true) = number of links of member i that are
                                   directed from member i to member j (dir_link / dir_link_spec):
                                   directed links are never de-duplicated
     pyvis_reachable               all of the above, unconditionally, in every state run ops empty

   Part U — plantuml (C14)
     puml_empty, resolve_spec (+ resolve_none, mro_nodup), puml_decls_exact, puml_rels_exact,
     puml_rels_end_classes, puml_rels_real,
     puml_internal_link_once (+ puml_listed_link_once, puml_internal_link_ends,
     puml_internal_link_count), member_links_perm (independence of the set iteration order),
     resolve_conf0_* (default table), puml_unconfigured_link_raises,
     puml_unconfigured_vertex_raises, puml_other_link_raises

   Non-vacuity: render_example (a two-vertex universe with a directed, an undirected and a
   self-loop link, all three renderings computed), render_example_hyps.                         *)
From Coq Require Import String Ascii List Lia Permutation Sorted.
From EG Require Import Base Lemmas State Nbrs Trav Struct LinkProofs UniProofs LinkStep Render.
Import ListNotations.

(* ============================================================================================ *)
(* Part P — plain text                                                                          *)
(* ============================================================================================ *)
Definition newline : string := String "010"%char EmptyString.

(* ---- P4: sort_by is a stable sort ---- *)
Section SortBy.
  Context {A : Type}.
  Variable key : A -> nat.

  Lemma insert_by_perm x l : Permutation (insert_by key x l) (x :: l).
  Proof.
    induction l as [|y t IH]; cbn; [apply Permutation_refl|].
    destruct (Nat.leb (key x) (key y)); [apply Permutation_refl|].
    eapply Permutation_trans; [apply perm_skip, IH | apply perm_swap].
  Qed.
  Lemma sort_by_permutation l : Permutation (sort_by key l) l.
  Proof.
    induction l as [|x l IH]; cbn; [constructor|].
    eapply Permutation_trans; [apply insert_by_perm | now apply perm_skip].
  Qed.
  Lemma sort_by_length l : length (sort_by key l) = length l.
  Proof. apply Permutation_length, sort_by_permutation. Qed.
  Lemma sort_by_In l x : In x (sort_by key l) <-> In x l.
  Proof.
    split; apply Permutation_in; [apply sort_by_permutation | apply Permutation_sym, sort_by_permutation].
  Qed.

  Let le_key (a b : A) : Prop := key a <= key b.

  Lemma insert_by_ssorted x l : StronglySorted le_key l -> StronglySorted le_key (insert_by key x l).
  Proof.
    induction l as [|y t IH]; intro S; cbn.
    - constructor; constructor.
    - inversion S as [|? ? St Hy]; subst.
      destruct (Nat.leb (key x) (key y)) eqn:E.
      + apply Nat.leb_le in E. constructor; [exact S|].
        constructor; [exact E|]. rewrite Forall_forall in *. intros z Hz. unfold le_key in *.
        specialize (Hy z Hz). lia.
      + apply Nat.leb_gt in E. constructor; [now apply IH|].
        rewrite Forall_forall in *. intros z Hz.
        apply (Permutation_in _ (insert_by_perm x t)) in Hz. destruct Hz as [<-|Hz].
        * unfold le_key; lia.
        * now apply Hy.
  Qed.
  Lemma sort_by_strongly_sorted l : StronglySorted (fun a b => key a <= key b) (sort_by key l).
  Proof. induction l as [|x l IH]; cbn; [constructor | now apply insert_by_ssorted]. Qed.
  Lemma sort_by_sorted l : Sorted (fun a b => key a <= key b) (sort_by key l).
  Proof. apply StronglySorted_Sorted, sort_by_strongly_sorted. Qed.

  (* stability: the elements of any given key keep their relative order *)
  Lemma insert_by_filter k0 x l :
    filter (fun y => Nat.eqb (key y) k0) (insert_by key x l) =
    (if Nat.eqb (key x) k0 then [x] else []) ++ filter (fun y => Nat.eqb (key y) k0) l.
  Proof.
    induction l as [|y t IH]; cbn; [now destruct (Nat.eqb (key x) k0)|].
    destruct (Nat.leb (key x) (key y)) eqn:E; cbn.
    - destruct (Nat.eqb (key x) k0); reflexivity.
    - apply Nat.leb_gt in E. rewrite IH.
      destruct (Nat.eqb_spec (key x) k0) as [X|X]; destruct (Nat.eqb_spec (key y) k0) as [Y|Y]; cbn; try reflexivity.
      lia.
  Qed.
  Lemma sort_by_stable l k0 :
    filter (fun x => Nat.eqb (key x) k0) (sort_by key l) = filter (fun x => Nat.eqb (key x) k0) l.
  Proof.
    induction l as [|x l IH]; [reflexivity|].
    change (sort_by key (x :: l)) with (insert_by key x (sort_by key l)).
    rewrite insert_by_filter, IH. cbn [filter]. destruct (Nat.eqb (key x) k0); reflexivity.
  Qed.
End SortBy.

Local Open Scope string_scope.
(* ============================================================================================ *)
(* strings                                                                                      *)
(* ============================================================================================ *)
Lemma sapp_assoc (a b c : string) : (a ++ b) ++ c = a ++ (b ++ c).
Proof. induction a as [|x a IH]; cbn; [reflexivity | now rewrite IH]. Qed.
Lemma sapp_nil_r (a : string) : a ++ "" = a.
Proof. induction a as [|x a IH]; cbn; [reflexivity | now rewrite IH]. Qed.

Lemma drop_last2_two (a : string) (x y : ascii) : drop_last2 (a ++ String x (String y "")) = a.
Proof.
  induction a as [|c a IH]; [reflexivity|].
  cbn [append]. cbn [drop_last2]. rewrite IH.
  destruct a as [|c1 a]; cbn; [reflexivity|]. destruct a; reflexivity.
Qed.

(* ---- P1..P3, P5 ---- *)
Section PlainProofs.
  Variable filt : nat -> nat -> option nat -> bool.
  Variable r : node -> string.
  Variable key : option (node -> nat).

  Lemma plain_order_perm vs : Permutation (plain_order key vs) vs.
  Proof. unfold plain_order. destruct key; [apply sort_by_permutation | apply Permutation_refl]. Qed.
  Lemma plain_order_length vs : length (plain_order key vs) = length vs.
  Proof. apply Permutation_length, plain_order_perm. Qed.
  Lemma plain_order_In vs v : In v (plain_order key vs) <-> In v vs.
  Proof. split; apply Permutation_in; [apply plain_order_perm | apply Permutation_sym, plain_order_perm]. Qed.
  Lemma plain_order_none vs : key = None -> plain_order key vs = vs.
  Proof. intros ->. reflexivity. Qed.
  Lemma plain_nbs_perm nbs : Permutation (plain_nbs key nbs) nbs.
  Proof. unfold plain_nbs. destruct key; [apply sort_by_permutation | apply Permutation_refl]. Qed.

  Lemma basic_render_empty s u : uv s u = [] -> basic_render filt r key s u = POk None.
  Proof. unfold basic_render. now intros ->. Qed.

  Lemma plain_lines_spec s vs : forall ls, plain_lines filt r key s vs = inl ls ->
    length ls = length vs /\
    forall i v, nth_error vs i = Some v ->
      exists nbs, neighbors_pure filt s v Fwd State.UErr None = NOk nbs /\
                  nth_error ls i = Some (plain_line r v (plain_nbs key nbs)).
  Proof.
    induction vs as [|w vs IH]; intros ls H; cbn in H.
    - inversion H; subst. split; [reflexivity|]. intros [|i] v Hi; discriminate.
    - destruct (neighbors_pure filt s w Fwd State.UErr None) as [nbs|e] eqn:EN; [|discriminate].
      destruct (plain_lines filt r key s vs) as [ls0|e]; [|discriminate].
      inversion H; subst. destruct (IH ls0 eq_refl) as [HL HN]. split; [cbn; now rewrite HL|].
      intros [|i] v Hi; cbn in Hi.
      + inversion Hi; subst. exists nbs. split; [exact EN | reflexivity].
      + cbn. now apply HN.
  Qed.

  Theorem basic_render_lines s u ls :
    uv s u <> [] ->
    plain_lines filt r key s (plain_order key (uv s u)) = inl ls ->
    basic_render filt r key s u = POk (Some (join newline ls)) /\
    length ls = length (uv s u) /\
    forall i v, nth_error (plain_order key (uv s u)) i = Some v ->
      exists nbs, neighbors_pure filt s v Fwd State.UErr None = NOk nbs /\
                  nth_error ls i = Some (plain_line r v (plain_nbs key nbs)).
  Proof.
    intros NE H. destruct (plain_lines_spec _ _ _ H) as [HL HN].
    split; [|split; [now rewrite HL, plain_order_length | exact HN]].
    unfold basic_render. destruct (uv s u) as [|v0 vs] eqn:EU; [congruence|].
    now rewrite H.
  Qed.

  (* the other direction: a successful rendering of a non-empty universe is such a join *)
  Lemma basic_render_ok_inv s u o : basic_render filt r key s u = POk o ->
    (uv s u = [] /\ o = None) \/
    (uv s u <> [] /\ exists ls, plain_lines filt r key s (plain_order key (uv s u)) = inl ls /\ o = Some (join newline ls)).
  Proof.
    unfold basic_render. destruct (uv s u) as [|v0 vs] eqn:EU.
    - intros [= <-]. now left.
    - destruct (plain_lines filt r key s (plain_order key (v0 :: vs))) as [ls|e]; [|discriminate].
      intros [= <-]. right. split; [discriminate|]. now exists ls.
  Qed.

  Lemma isolated_vertex_line v : plain_line r v [] = r (Some v) ++ " -> ".
  Proof. unfold plain_line. cbn. apply sapp_nil_r. Qed.

  Lemma concat_pinned nbs : nbs <> [] ->
    String.concat "" (map (fun e => r e ++ ", ") nbs) = join ", " (map r nbs) ++ ", ".
  Proof.
    induction nbs as [|x t IH]; [congruence|]. intros _.
    destruct t as [|y t]; [reflexivity|].
    change (String.concat "" (map (fun e => r e ++ ", ") (x :: y :: t)))
      with ((r x ++ ", ") ++ "" ++ String.concat "" (map (fun e => r e ++ ", ") (y :: t))).
    change (join ", " (map r (x :: y :: t))) with (r x ++ ", " ++ join ", " (map r (y :: t))).
    rewrite IH by discriminate. cbn [append]. now rewrite !sapp_assoc.
  Qed.
  Lemma pinned_line_ok_when_neighbours v nbs : nbs <> [] -> plain_line_pinned r v nbs = plain_line r v nbs.
  Proof.
    intro NE. unfold plain_line_pinned, plain_line. rewrite concat_pinned by exact NE.
    rewrite <- sapp_assoc. apply drop_last2_two.
  Qed.

  (* P5: errors *)
  Lemma plain_lines_err s vs e : plain_lines filt r key s vs = inr e <->
    exists pre v post, vs = (pre ++ v :: post)%list /\
      (forall w, In w pre -> exists nbs, neighbors_pure filt s w Fwd State.UErr None = NOk nbs) /\
      neighbors_pure filt s v Fwd State.UErr None = NErr e.
  Proof.
    induction vs as [|w vs IH]; cbn.
    - split; [discriminate|]. intros (pre & v & post & H & _). destruct pre; discriminate.
    - destruct (neighbors_pure filt s w Fwd State.UErr None) as [nbs|e0] eqn:EN.
      + destruct (plain_lines filt r key s vs) as [ls|e1].
        * split; [discriminate|]. intros (pre & v & post & H & Hpre & Hv).
          destruct pre as [|p pre]; cbn in H; inversion H; subst; [congruence|].
          assert (X : @inl (list string) exn ls = inr e); [|discriminate].
          apply IH. exists pre, v, post. split; [reflexivity|]. split; [|exact Hv].
          intros w0 Hw0. apply Hpre. now right.
        * split.
          -- intros [= ->]. destruct (proj1 IH eq_refl) as (pre & v & post & -> & Hpre & Hv).
             exists (w :: pre), v, post. split; [reflexivity|]. split; [|exact Hv].
             intros w0 [<-|Hw0]; [now exists nbs | now apply Hpre].
          -- intros (pre & v & post & H & Hpre & Hv).
             destruct pre as [|p pre]; cbn in H; inversion H; subst; [congruence|].
             f_equal. assert (X : @inr (list string) exn e1 = inr e); [|now inversion X].
             apply IH. exists pre, v, post. split; [reflexivity|]. split; [|exact Hv].
             intros w0 Hw0. apply Hpre. now right.
      + split.
        * intros [= ->]. exists [], w, vs. split; [reflexivity|]. split; [intros ? []|exact EN].
        * intros (pre & v & post & H & Hpre & Hv).
          destruct pre as [|p pre]; cbn in H; inversion H; subst; [congruence|].
          destruct (Hpre p (or_introl eq_refl)) as [nbs Hn]. congruence.
  Qed.

  Theorem basic_render_error_iff s u e : basic_render filt r key s u = PErr e <->
    exists pre v post, plain_order key (uv s u) = (pre ++ v :: post)%list /\
      (forall w, In w pre -> exists nbs, neighbors_pure filt s w Fwd State.UErr None = NOk nbs) /\
      neighbors_pure filt s v Fwd State.UErr None = NErr e.
  Proof.
    rewrite <- plain_lines_err. unfold basic_render. destruct (uv s u) as [|v0 vs] eqn:EU.
    - split; [discriminate|]. unfold plain_order. destruct key; cbn; discriminate.
    - destruct (plain_lines filt r key s (plain_order key (v0 :: vs))) as [ls|e1]; split; congruence.
  Qed.
  Theorem basic_render_error s u e : basic_render filt r key s u = PErr e ->
    uv s u <> [] /\ exists v, In v (uv s u) /\ neighbors_pure filt s v Fwd State.UErr None = NErr e.
  Proof.
    intro H. apply basic_render_error_iff in H. destruct H as (pre & v & post & HO & _ & Hv).
    assert (Hin : In v (uv s u)).
    { apply plain_order_In. rewrite HO. apply in_or_app. right. now left. }
    split; [intro E; rewrite E in Hin; exact Hin|]. now exists v.
  Qed.
  Theorem basic_render_error_some_iff s u : (exists e, basic_render filt r key s u = PErr e) <->
    exists v e, In v (uv s u) /\ neighbors_pure filt s v Fwd State.UErr None = NErr e.
  Proof.
    split.
    - intros [e H]. apply basic_render_error in H. destruct H as (_ & v & Hv & He). now exists v, e.
    - intros (v & e & Hv & He).
      destruct (basic_render filt r key s u) as [o|e1] eqn:EB; [|now exists e1].
      exfalso. apply basic_render_ok_inv in EB. destruct EB as [[E _]|(_ & ls & HL & _)].
      + rewrite E in Hv. exact Hv.
      + apply plain_order_In in Hv. apply In_nth_error in Hv. destruct Hv as [i Hi].
        destruct (plain_lines_spec _ _ _ HL) as [_ HN]. destruct (HN i v Hi) as (nbs & Hn & _). congruence.
  Qed.
End PlainProofs.

Local Close Scope string_scope.

Example pinned_line_eats_arrow : plain_line_pinned (fun _ => "z"%string) 0 [] = "z -"%string.
Proof. reflexivity. Qed.

(* ============================================================================================ *)
(* Part V — pyvis                                                                               *)
(* ============================================================================================ *)
Lemma enum_from_fst {A} (l : list A) : forall k, map fst (enum_from k l) = seq k (length l).
Proof. induction l as [|x l IH]; intro k; cbn; [reflexivity | now rewrite IH]. Qed.
Lemma enum_from_In {A} (l : list A) : forall k i x,
  In (i, x) (enum_from k l) <-> k <= i /\ nth_error l (i - k) = Some x.
Proof.
  induction l as [|y l IH]; intros k i x; cbn.
  - split; [tauto|]. intros [_ H]. destruct (i - k); discriminate.
  - rewrite IH. split.
    + intros [E|[H1 H2]].
      * inversion E; subst. split; [lia|]. now rewrite Nat.sub_diag.
      * split; [lia|]. replace (i - k) with (S (i - S k)) by lia. exact H2.
    + intros [H1 H2]. destruct (Nat.eq_dec i k) as [->|N].
      * left. rewrite Nat.sub_diag in H2. cbn in H2. congruence.
      * right. split; [lia|]. replace (i - k) with (S (i - S k)) in H2 by lia. exact H2.
Qed.
Lemma enum_from_In0 {A} (l : list A) i x : In (i, x) (enum_from 0 l) <-> nth_error l i = Some x.
Proof. rewrite enum_from_In, Nat.sub_0_r. split; [tauto | split; [lia|assumption]]. Qed.

Lemma index_of_nth x l : forall k j, index_of x l k = Some j -> k <= j /\ nth_error l (j - k) = Some x.
Proof.
  induction l as [|y l IH]; intros k j H; cbn in H; [discriminate|].
  destruct (Nat.eqb_spec x y) as [->|N].
  - inversion H; subst. split; [lia|]. now rewrite Nat.sub_diag.
  - apply IH in H. destruct H as [H1 H2]. split; [lia|]. replace (j - k) with (S (j - S k)) by lia. exact H2.
Qed.
Lemma index_of_nodup x l : NoDup l -> forall j k, nth_error l j = Some x -> index_of x l k = Some (k + j).
Proof.
  induction 1 as [|y l Hy ND IH]; intros j k H; [destruct j; discriminate|].
  cbn. destruct j as [|j]; cbn in H.
  - inversion H; subst. rewrite Nat.eqb_refl. f_equal. lia.
  - destruct (Nat.eqb_spec x y) as [->|N].
    + exfalso. apply Hy. eapply nth_error_In; eauto.
    + rewrite (IH j (S k) H). f_equal. lia.
Qed.
Lemma pv_index_nth verts o j : pv_index verts o = Some j -> exists v, o = Some v /\ nth_error verts j = Some v.
Proof.
  destruct o as [v|]; [|discriminate]. cbn. intro H. apply index_of_nth in H.
  exists v. split; [reflexivity|]. now rewrite Nat.sub_0_r in H.
Qed.
Lemma pv_index_nodup verts v j : NoDup verts -> nth_error verts j = Some v -> pv_index verts (Some v) = Some j.
Proof. intros ND H. cbn. now rewrite (index_of_nodup v verts ND j 0 H). Qed.

Definition ids (n : pnet) : list nat := map fst (pnodes n).

Definition add_nodes (l : list (nat * nat)) (n : pnet) : pnet :=
  fold_left (fun n iv => add_node n (fst iv) (snd iv)) l n.
Lemma add_nodes_gen (verts : list nat) : forall k n, (forall i, In i (ids n) -> i < k) ->
  pnodes (add_nodes (enum_from k verts) n) = pnodes n ++ enum_from k verts /\
  pedges (add_nodes (enum_from k verts) n) = pedges n /\
  pdirected (add_nodes (enum_from k verts) n) = pdirected n.
Proof.
  induction verts as [|x verts IH]; intros k n Hlt.
  - cbn. now rewrite app_nil_r.
  - change (add_nodes (enum_from k (x :: verts)) n) with (add_nodes (enum_from (S k) verts) (add_node n k x)).
    assert (E : add_node n k x = {| pnodes := pnodes n ++ [(k, x)]; pedges := pedges n; pdirected := pdirected n |}).
    { unfold add_node. fold (ids n). replace (memn k (ids n)) with false; [reflexivity|].
      symmetry. apply memn_nIn. intro H. apply Hlt in H. lia. }
    rewrite E. set (n1 := {| pnodes := pnodes n ++ [(k, x)]; pedges := pedges n; pdirected := pdirected n |}).
    destruct (IH (S k) n1) as (H1 & H2 & H3).
    { intros i Hi. unfold ids, n1 in Hi. cbn in Hi. rewrite map_app in Hi. apply in_app_or in Hi.
      destruct Hi as [Hi|Hi]; [apply Hlt in Hi; lia | cbn in Hi; lia]. }
    rewrite H1, H2, H3. unfold n1. cbn. now rewrite <- app_assoc.
Qed.

Lemma add_edge_spec n i j :
  match add_edge n i j with
  | None => memn i (ids n) && memn j (ids n) = false
  | Some n' => memn i (ids n) && memn j (ids n) = true /\ pnodes n' = pnodes n /\ pdirected n' = pdirected n /\
      ((pdirected n = false /\ pedges n' = pedges n /\
        exists f t x, In (f, t, x) (pedges n) /\ ((i = t /\ j = f) \/ (i = f /\ j = t)))
       \/ pedges n' = pedges n ++ [(i, j, pdirected n)])
  end.
Proof.
  unfold add_edge. fold (ids n). destruct (memn i (ids n) && memn j (ids n)); cbn [negb]; [|reflexivity].
  match goal with |- context [existsb ?f (pedges n)] => destruct (negb (pdirected n) && existsb f (pedges n)) eqn:E end.
  - split; [reflexivity|]. split; [reflexivity|]. split; [reflexivity|]. left.
    apply andb_true_iff in E. destruct E as [E1 E2]. apply negb_true_iff in E1.
    split; [exact E1|]. split; [reflexivity|].
    apply existsb_exists in E2. destruct E2 as ([[f t] x] & Hin & Hx).
    exists f, t, x. split; [exact Hin|].
    apply orb_true_iff in Hx. destruct Hx as [Hx|Hx]; apply andb_true_iff in Hx; destruct Hx as [X Y];
      apply Nat.eqb_eq in X; apply Nat.eqb_eq in Y; [left|right]; now split.
  - cbn. split; [reflexivity|]. split; [reflexivity|]. split; [reflexivity|]. now right.
Qed.

Section Pyvis.
  Variable s : state.
  Variable verts : list nat.

  (* one iteration of the edge loop; None = IndexError *)
  Definition pv_step (i vert e : nat) (n : pnet) : option pnet :=
    match lv2 s e, lv1 s e with
    | None, _ | _, None => None
    | Some b, Some a =>
        if oeqb (Some vert) b && negb (oeqb (Some vert) a) then Some n
        else match other s e (Some vert) with
             | OErr => None
             | OVal o =>
                 match pv_index verts o with
                 | None => Some n
                 | Some j => let n1 := set_directed n (is_directed (kd s e)) in
                             match add_edge n1 i j with Some n2 => Some n2 | None => Some n1 end
                 end
             end
    end.
  Lemma pv_edges_cons i vert e rest n :
    pv_edges s verts i vert (e :: rest) n =
    match pv_step i vert e n with Some n1 => pv_edges s verts i vert rest n1 | None => VErr IndexError end.
  Proof.
    unfold pv_step. cbn [pv_edges]. destruct (lv2 s e), (lv1 s e); try reflexivity.
    destruct (_ && _); try reflexivity. destruct (other s e (Some vert)); try reflexivity.
    destruct (pv_index verts o1); try reflexivity. destruct (add_edge _ i n0); reflexivity.
  Qed.

  Lemma pv_step_spec i vert e n n' : pv_step i vert e n = Some n' ->
    pnodes n' = pnodes n /\
    exists a b, lv1 s e = Some a /\ lv2 s e = Some b /\
     ((pedges n' = pedges n /\ (a <> Some vert \/ pv_index verts b = None)) \/
      (exists vj j, a = Some vert /\ b = Some vj /\ pv_index verts (Some vj) = Some j /\
         ((pedges n' = pedges n /\ memn i (ids n) && memn j (ids n) = false) \/
          (pedges n' = pedges n /\ is_directed (kd s e) = false /\
           exists f t x, In (f, t, x) (pedges n) /\ ((i = t /\ j = f) \/ (i = f /\ j = t))) \/
          pedges n' = pedges n ++ [(i, j, is_directed (kd s e))]))).
  Proof.
    unfold pv_step, other. destruct (lv2 s e) as [b|] eqn:E2; [|discriminate].
    destruct (lv1 s e) as [a|] eqn:E1; [|discriminate].
    destruct (oeqb (Some vert) a) eqn:Ea.
    - apply oeqb_eq in Ea. subst a. rewrite andb_false_r.
      destruct (pv_index verts b) as [j|] eqn:Ej.
      + destruct b as [vj|]; [|discriminate].
        pose proof (add_edge_spec (set_directed n (is_directed (kd s e))) i j) as AE.
        destruct (add_edge (set_directed n (is_directed (kd s e))) i j) as [n2|].
        * intros [= <-]. destruct AE as (M & N & _ & C). cbn in N, C. split; [exact N|].
          exists (Some vert), (Some vj). split; [reflexivity|]. split; [reflexivity|]. right.
          exists vj, j. split; [reflexivity|]. split; [reflexivity|]. split; [exact Ej|].
          right. destruct C as [(D & P & X)|P]; [left|right]; auto.
        * intros [= <-]. cbn. split; [reflexivity|].
          exists (Some vert), (Some vj). split; [reflexivity|]. split; [reflexivity|]. right.
          exists vj, j. split; [reflexivity|]. split; [reflexivity|]. split; [exact Ej|]. left.
          split; [reflexivity|exact AE].
      + intros [= <-]. split; [reflexivity|]. exists (Some vert), b. split; [reflexivity|]. split; [reflexivity|].
        left. split; [reflexivity|]. now right.
    - assert (Na : a <> Some vert) by (intro X; subst a; rewrite oeqb_refl in Ea; discriminate).
      destruct (oeqb (Some vert) b) eqn:Eb; cbn [negb andb].
      + intros [= <-]. split; [reflexivity|]. exists a, b. split; [reflexivity|]. split; [reflexivity|].
        left. split; [reflexivity|]. now left.
      + cbn [pv_index]. intros [= <-]. split; [reflexivity|]. exists a, b. split; [reflexivity|]. split; [reflexivity|].
        left. split; [reflexivity|]. now left.
  Qed.

  Lemma pv_step_mono i vert e n n' : pv_step i vert e n = Some n' ->
    pnodes n' = pnodes n /\ incl (pedges n) (pedges n').
  Proof.
    intro H. apply pv_step_spec in H. destruct H as (N & a & b & _ & _ & C). split; [exact N|].
    destruct C as [[P _]|(vj & j & _ & _ & _ & [[P _]|[(P & _)|P]])]; rewrite P;
      try apply incl_refl. apply incl_appl, incl_refl.
  Qed.
  Lemma pv_edges_mono i vert ls : forall n n', pv_edges s verts i vert ls n = VOk n' ->
    pnodes n' = pnodes n /\ incl (pedges n) (pedges n').
  Proof.
    induction ls as [|e ls IH]; intros n n' H.
    - cbn in H. inversion H; subst. split; [reflexivity | apply incl_refl].
    - rewrite pv_edges_cons in H. destruct (pv_step i vert e n) as [n1|] eqn:E1; [|discriminate].
      apply pv_step_mono in E1. apply IH in H. destruct E1 as [A B], H as [C D].
      split; [congruence | eapply incl_tran; eauto].
  Qed.
  Lemma pv_loop_mono iv : forall n n', pv_loop s verts iv n = VOk n' ->
    pnodes n' = pnodes n /\ incl (pedges n) (pedges n').
  Proof.
    induction iv as [|[i vert] iv IH]; intros n n' H; cbn in H.
    - inversion H; subst. split; [reflexivity | apply incl_refl].
    - destruct (pv_edges s verts i vert (vl s vert) n) as [n1|] eqn:E1; [|discriminate].
      apply pv_edges_mono in E1. apply IH in H. destruct E1 as [A B], H as [C D].
      split; [congruence | eapply incl_tran; eauto].
  Qed.

  (* ---- V2 ---- *)
  Definition edge_ok (x : nat * nat * bool) : Prop :=
    exists vi vj e, nth_error verts (fst (fst x)) = Some vi /\ nth_error verts (snd (fst x)) = Some vj /\
      In e (vl s vi) /\ snd x = is_directed (kd s e) /\
      lv1 s e = Some (Some vi) /\ lv2 s e = Some (Some vj).

  Lemma pv_step_ok i vert e n n' : nth_error verts i = Some vert -> In e (vl s vert) ->
    pv_step i vert e n = Some n' -> Forall edge_ok (pedges n) -> Forall edge_ok (pedges n').
  Proof.
    intros Hi He H F. apply pv_step_spec in H. destruct H as (_ & a & b & E1 & E2 & C).
    destruct C as [[P _]|(vj & j & -> & -> & Ej & [[P _]|[(P & _)|P]])]; rewrite P; auto.
    apply Forall_app. split; [exact F|]. constructor; [|constructor].
    apply pv_index_nth in Ej. destruct Ej as (v & [= <-] & Hj).
    exists vert, vj, e. cbn. repeat split; auto.
  Qed.
  Lemma pv_edges_ok i vert : nth_error verts i = Some vert ->
    forall ls n n', (forall e, In e ls -> In e (vl s vert)) ->
    pv_edges s verts i vert ls n = VOk n' -> Forall edge_ok (pedges n) -> Forall edge_ok (pedges n').
  Proof.
    intro Hi. induction ls as [|e ls IH]; intros n n' Hs H F.
    - cbn in H. now inversion H; subst.
    - rewrite pv_edges_cons in H. destruct (pv_step i vert e n) as [n1|] eqn:E1; [|discriminate].
      eapply IH; [| exact H |].
      + intros e0 H0. apply Hs. now right.
      + eapply pv_step_ok; eauto. apply Hs. now left.
  Qed.
  Lemma pv_loop_ok iv : (forall i v, In (i, v) iv -> nth_error verts i = Some v) ->
    forall n n', pv_loop s verts iv n = VOk n' -> Forall edge_ok (pedges n) -> Forall edge_ok (pedges n').
  Proof.
    induction iv as [|[i vert] iv IH]; intros Hiv n n' H F; cbn in H.
    - now inversion H; subst.
    - destruct (pv_edges s verts i vert (vl s vert) n) as [n1|] eqn:E1; [|discriminate].
      eapply IH; [| exact H |].
      + intros i0 v0 H0. apply Hiv. now right.
      + eapply pv_edges_ok; [apply Hiv; now left | | exact E1 | exact F]. auto.
  Qed.
End Pyvis.

Lemma make_pyvis_net_unfold s u :
  let verts := uv s u in
  let n0 := fold_left (fun n iv => add_node n (fst iv) (snd iv)) (enum_from 0 verts) pnet0 in
  make_pyvis_net s u = pv_loop s verts (enum_from 0 verts) n0 /\
  pnodes n0 = enum_from 0 verts /\ pedges n0 = [] /\ pdirected n0 = false.
Proof.
  cbn zeta. split; [reflexivity|].
  destruct (add_nodes_gen (uv s u) 0 pnet0) as (A & B & C); [intros i []|]. cbn in A, B, C. auto.
Qed.

Theorem pyvis_nodes_gen s u n : make_pyvis_net s u = VOk n -> pnodes n = enum_from 0 (uv s u).
Proof.
  destruct (make_pyvis_net_unfold s u) as (-> & A & _). intro H. apply pv_loop_mono in H.
  destruct H as [H _]. congruence.
Qed.
Theorem pyvis_nodes s u n : NoDup (uv s u) -> make_pyvis_net s u = VOk n -> pnodes n = enum_from 0 (uv s u).
Proof. intros _. apply pyvis_nodes_gen. Qed.

Theorem pyvis_edges_oriented s u n : make_pyvis_net s u = VOk n ->
  forall i j arr, In (i, j, arr) (pedges n) ->
  exists vi vj e, nth_error (uv s u) i = Some vi /\ nth_error (uv s u) j = Some vj /\
    In e (vl s vi) /\ arr = is_directed (kd s e) /\
    lv1 s e = Some (Some vi) /\ lv2 s e = Some (Some vj).
Proof.
  destruct (make_pyvis_net_unfold s u) as (-> & _ & B & _). intros H i j arr Hin.
  eapply pv_loop_ok in H.
  - rewrite Forall_forall in H. apply (H _ Hin).
  - intros i0 v0. apply enum_from_In0.
  - rewrite B. constructor.
Qed.

Lemma other_v1 s e a b : lv1 s e = Some a -> lv2 s e = Some b -> other s e a = OVal b.
Proof. unfold other. intros -> ->. now rewrite oeqb_refl. Qed.

Theorem pyvis_edges_are_real s u n : NoDup (uv s u) -> make_pyvis_net s u = VOk n ->
  forall i j arr, In (i, j, arr) (pedges n) ->
  exists vi vj e, nth_error (uv s u) i = Some vi /\ nth_error (uv s u) j = Some vj /\
    In e (vl s vi) /\ other s e (Some vi) = OVal (Some vj) /\ arr = is_directed (kd s e) /\
    (arr = true -> lv1 s e = Some (Some vi) /\ lv2 s e = Some (Some vj)).
Proof.
  intros _ H i j arr Hin. destruct (pyvis_edges_oriented s u n H i j arr Hin) as (vi & vj & e & A & B & C & D & E & F).
  exists vi, vj, e. repeat split; auto. now apply other_v1.
Qed.

Theorem pyvis_no_outside_vertex s u n : NoDup (uv s u) -> make_pyvis_net s u = VOk n ->
  (forall i v, In (i, v) (pnodes n) -> i < length (uv s u) /\ nth_error (uv s u) i = Some v) /\
  (forall i j arr, In (i, j, arr) (pedges n) -> i < length (uv s u) /\ j < length (uv s u)).
Proof.
  intros ND H. split.
  - intros i v Hin. rewrite (pyvis_nodes_gen s u n H) in Hin. apply enum_from_In0 in Hin.
    split; [|exact Hin]. apply nth_error_Some. congruence.
  - intros i j arr Hin. destruct (pyvis_edges_oriented s u n H i j arr Hin) as (vi & vj & e & A & B & _).
    split; apply nth_error_Some; congruence.
Qed.

(* ---- V4 ---- *)
Definition joined (n : pnet) (i j : nat) : Prop :=
  exists arr, In (i, j, arr) (pedges n) \/ In (j, i, arr) (pedges n).
Lemma joined_sym n i j : joined n i j -> joined n j i.
Proof. intros [a [H|H]]; exists a; tauto. Qed.
Lemma joined_mono n n' i j : incl (pedges n) (pedges n') -> joined n i j -> joined n' i j.
Proof. intros I [a [H|H]]; exists a; [left|right]; now apply I. Qed.

Lemma memn_seq i k : i < k -> memn i (seq 0 k) = true.
Proof. intro H. apply memn_In, in_seq. lia. Qed.

Definition edge_dec : forall x y : nat * nat * bool, {x = y} + {x <> y}.
Proof. decide equality; [apply Bool.bool_dec | decide equality; apply Nat.eq_dec]. Defined.
Lemma count_single (x y : nat * nat * bool) : count_occ edge_dec [x] y = if edge_dec x y then 1 else 0.
Proof. reflexivity. Qed.

(* e is a directed link from vi to vj *)
Definition dir_link (s : state) (vi vj e : nat) : bool :=
  is_directed (kd s e) && is_end1 s e vi && is_end2 s e vj.
Lemma dir_link_spec s vi vj e : dir_link s vi vj e = true <->
  is_directed (kd s e) = true /\ lv1 s e = Some (Some vi) /\ lv2 s e = Some (Some vj).
Proof.
  unfold dir_link, is_end1, is_end2. rewrite !andb_true_iff.
  destruct (lv1 s e) as [a|], (lv2 s e) as [b|]; rewrite ?oeqb_eq;
    split; intros [[A B] C] || intros (A & B & C); try discriminate; repeat split; congruence.
Qed.

Lemma list_sum_cons x l : list_sum (x :: l) = x + list_sum l.
Proof. reflexivity. Qed.

Section Pyvis2.
  Variable s : state.
  Variable verts : list nat.
  Hypothesis ND : NoDup verts.

  Lemma pv_step_joined i vi j vj e n n' :
    nth_error verts i = Some vi -> nth_error verts j = Some vj -> ids n = seq 0 (length verts) ->
    lv1 s e = Some (Some vi) -> lv2 s e = Some (Some vj) ->
    pv_step s verts i vi e n = Some n' -> joined n' i j.
  Proof.
    intros Hi Hj Hn E1 E2 H. apply pv_step_spec in H. destruct H as (_ & a & b & A & B & C).
    assert (a = Some vi) by congruence. assert (b = Some vj) by congruence. subst a b.
    pose proof (pv_index_nodup verts vj j ND Hj) as PJ.
    destruct C as [[_ [X|X]]|(vj' & j' & _ & [= <-] & Ej & C)]; [congruence | congruence |].
    assert (j' = j) by congruence. subst j'.
    destruct C as [[_ M]|[(P & _ & f & t & x & Hin & [[-> ->]|[-> ->]])|P]].
    - rewrite Hn, !memn_seq in M; [discriminate| |]; apply nth_error_Some; congruence.
    - exists x. right. now rewrite P.
    - exists x. left. now rewrite P.
    - exists (is_directed (kd s e)). left. rewrite P. apply in_or_app. right. now left.
  Qed.
  Lemma pv_edges_joined i vi j vj e :
    nth_error verts i = Some vi -> nth_error verts j = Some vj ->
    lv1 s e = Some (Some vi) -> lv2 s e = Some (Some vj) ->
    forall ls n n', In e ls -> ids n = seq 0 (length verts) ->
    pv_edges s verts i vi ls n = VOk n' -> joined n' i j.
  Proof.
    intros Hi Hj E1 E2. induction ls as [|e0 ls IH]; intros n n' Hin Hn H; [destruct Hin|].
    rewrite pv_edges_cons in H. destruct (pv_step s verts i vi e0 n) as [n1|] eqn:S1; [|discriminate].
    destruct Hin as [->|Hin].
    - eapply joined_mono; [apply (pv_edges_mono _ _ _ _ _ _ _ H)|]. eapply pv_step_joined; eauto.
    - apply (IH n1 n' Hin); [|exact H]. apply pv_step_mono in S1. unfold ids in *. destruct S1 as [-> _]. exact Hn.
  Qed.
  Lemma pv_loop_joined i vi j vj e :
    nth_error verts i = Some vi -> nth_error verts j = Some vj ->
    lv1 s e = Some (Some vi) -> lv2 s e = Some (Some vj) -> In e (vl s vi) ->
    forall iv n n', In (i, vi) iv -> ids n = seq 0 (length verts) ->
    pv_loop s verts iv n = VOk n' -> joined n' i j.
  Proof.
    intros Hi Hj E1 E2 He. induction iv as [|[i0 v0] iv IH]; intros n n' Hin Hn H; [destruct Hin|].
    cbn in H. destruct (pv_edges s verts i0 v0 (vl s v0) n) as [n1|] eqn:S1; [|discriminate].
    destruct Hin as [[= -> ->]|Hin].
    - eapply joined_mono; [apply (pv_loop_mono _ _ _ _ _ H)|]. eapply pv_edges_joined; eauto.
    - apply (IH n1 n' Hin); [|exact H]. apply pv_edges_mono in S1. unfold ids in *. destruct S1 as [-> _]. exact Hn.
  Qed.

  (* ---- counting arrowed edges i0 -> j0 ---- *)
  Variables (i0 j0 vi0 vj0 : nat).
  Hypothesis Hi0 : nth_error verts i0 = Some vi0.
  Hypothesis Hj0 : nth_error verts j0 = Some vj0.
  Let cnt (n : pnet) : nat := count_occ edge_dec (pedges n) (i0, j0, true).

  Lemma pv_step_count i vert e n n' :
    nth_error verts i = Some vert -> ids n = seq 0 (length verts) ->
    pv_step s verts i vert e n = Some n' ->
    cnt n' = cnt n + (if Nat.eqb i i0 && dir_link s vi0 vj0 e then 1 else 0).
  Proof.
    intros Hi Hn H. apply pv_step_spec in H. destruct H as (_ & a & b & A & B & C). unfold cnt.
    pose proof (pv_index_nodup verts vj0 j0 ND Hj0) as PJ.
    destruct (Nat.eqb i i0 && dir_link s vi0 vj0 e) eqn:G.
    - apply andb_true_iff in G. destruct G as [G1 G2]. apply Nat.eqb_eq in G1. subst i0.
      assert (vert = vi0) by congruence. subst vi0.
      apply dir_link_spec in G2. destruct G2 as (D & L1 & L2).
      assert (a = Some vert) by congruence. assert (b = Some vj0) by congruence. subst a b.
      destruct C as [[_ [X|X]]|(vj' & j' & _ & [= <-] & Ej & C)]; [congruence | congruence |].
      assert (j' = j0) by congruence. subst j'.
      destruct C as [[_ M]|[(_ & D' & _)|P]].
      + rewrite Hn, !memn_seq in M; [discriminate| |]; apply nth_error_Some; congruence.
      + congruence.
      + rewrite P, D, count_occ_app, count_single. destruct (edge_dec (i, j0, true) (i, j0, true)); [reflexivity|congruence].
    - rewrite Nat.add_0_r.
      destruct C as [[-> _]|(vj' & j' & -> & -> & Ej & [[-> _]|[(-> & _)|P]])]; try reflexivity.
      rewrite P, count_occ_app, count_single.
      destruct (edge_dec (i, j', is_directed (kd s e)) (i0, j0, true)) as [E|_]; [|lia].
      exfalso. inversion E as [[X Y Z]]. subst i j'. assert (vert = vi0) by congruence. subst vi0.
      apply pv_index_nth in Ej. destruct Ej as (w & [= <-] & Hw). assert (vj' = vj0) by congruence. subst vj'.
      rewrite Nat.eqb_refl in G. cbn in G.
      assert (T : dir_link s vert vj0 e = true) by (apply dir_link_spec; auto). congruence.
  Qed.
  Lemma pv_edges_count i vert : nth_error verts i = Some vert ->
    forall ls n n', ids n = seq 0 (length verts) -> pv_edges s verts i vert ls n = VOk n' ->
    cnt n' = cnt n + (if Nat.eqb i i0 then length (filter (dir_link s vi0 vj0) ls) else 0).
  Proof.
    intro Hi. induction ls as [|e ls IH]; intros n n' Hn H.
    - cbn in H. inversion H; subst. destruct (Nat.eqb i i0); cbn [filter length]; apply plus_n_O.
    - rewrite pv_edges_cons in H. destruct (pv_step s verts i vert e n) as [n1|] eqn:S1; [|discriminate].
      pose proof (pv_step_count _ _ _ _ _ Hi Hn S1) as C1.
      apply pv_step_mono in S1. destruct S1 as [N1 _].
      rewrite (IH n1 n') by (unfold ids in *; congruence || exact H). rewrite C1.
      cbn [filter]. destruct (Nat.eqb i i0); cbn [andb]; [|lia].
      destruct (dir_link s vi0 vj0 e); cbn [length]; lia.
  Qed.
  Let g (iv : nat * nat) : nat :=
    if Nat.eqb (fst iv) i0 then length (filter (dir_link s vi0 vj0) (vl s (snd iv))) else 0.
  Lemma pv_loop_count iv : (forall i v, In (i, v) iv -> nth_error verts i = Some v) ->
    forall n n', ids n = seq 0 (length verts) -> pv_loop s verts iv n = VOk n' ->
    cnt n' = cnt n + list_sum (map g iv).
  Proof.
    induction iv as [|[i vert] iv IH]; intros Hiv n n' Hn H; cbn in H.
    - inversion H; subst. cbn. lia.
    - destruct (pv_edges s verts i vert (vl s vert) n) as [n1|] eqn:S1; [|discriminate].
      pose proof (pv_edges_count i vert (Hiv _ _ (or_introl eq_refl)) _ _ _ Hn S1) as C1.
      apply pv_edges_mono in S1. destruct S1 as [N1 _].
      rewrite (IH (fun i v H => Hiv i v (or_intror H)) n1 n') by (unfold ids in *; congruence || exact H).
      rewrite C1. change (map g ((i, vert) :: iv)) with (g (i, vert) :: map g iv).
      change (list_sum (g (i, vert) :: map g iv)) with (g (i, vert) + list_sum (map g iv)).
      unfold g at 2. cbn [fst snd]. lia.
  Qed.
  Lemma sum_g_late l : forall k, i0 < k -> list_sum (map g (enum_from k l)) = 0.
  Proof.
    induction l as [|x l IH]; intros k Hk; cbn [enum_from map]; [reflexivity|]. rewrite list_sum_cons.
    rewrite IH by lia. unfold g. cbn [fst snd]. destruct (Nat.eqb_spec k i0); lia.
  Qed.
  Lemma sum_g_at l : forall k, k <= i0 -> nth_error l (i0 - k) = Some vi0 ->
    list_sum (map g (enum_from k l)) = length (filter (dir_link s vi0 vj0) (vl s vi0)).
  Proof.
    induction l as [|x l IH]; intros k Hk Hn; [destruct (i0 - k); discriminate|].
    cbn [enum_from map]. rewrite list_sum_cons. unfold g at 1. cbn [fst snd].
    destruct (Nat.eqb_spec k i0) as [->|N].
    - rewrite Nat.sub_diag in Hn. cbn in Hn. inversion Hn; subst. rewrite sum_g_late by lia. lia.
    - rewrite IH; [lia | lia |]. replace (i0 - k) with (S (i0 - S k)) in Hn by lia. exact Hn.
  Qed.
End Pyvis2.

Lemma other_some_inv s e vi vj : other s e (Some vi) = OVal (Some vj) ->
  (lv1 s e = Some (Some vi) /\ lv2 s e = Some (Some vj)) \/
  (lv1 s e = Some (Some vj) /\ lv2 s e = Some (Some vi)).
Proof.
  unfold other. destruct (lv1 s e) as [a|]; [|discriminate].
  destruct (oeqb (Some vi) a) eqn:Ea.
  - apply oeqb_eq in Ea. subst a. destruct (lv2 s e) as [b|]; [|discriminate]. intros [= ->]. now left.
  - destruct (lv2 s e) as [b|]; [|discriminate]. destruct (oeqb (Some vi) b) eqn:Eb; [|discriminate].
    apply oeqb_eq in Eb. subst b. intros [= ->]. now right.
Qed.

Lemma make_pyvis_ids s u : ids (add_nodes (enum_from 0 (uv s u)) pnet0) = seq 0 (length (uv s u)).
Proof.
  destruct (add_nodes_gen (uv s u) 0 pnet0) as (A & _); [intros i []|].
  unfold ids. rewrite A. cbn. apply enum_from_fst.
Qed.

Theorem pyvis_every_internal_link_joined_assoc s u n :
  assoc s -> NoDup (uv s u) -> make_pyvis_net s u = VOk n ->
  forall i j vi vj e, nth_error (uv s u) i = Some vi -> nth_error (uv s u) j = Some vj ->
    In e (vl s vi) -> other s e (Some vi) = OVal (Some vj) ->
    exists a, In (i, j, a) (pedges n) \/ In (j, i, a) (pedges n).
Proof.
  intros AS ND H i j vi vj e Hi Hj He Ho. change (joined n i j).
  unfold make_pyvis_net in H. fold (add_nodes (enum_from 0 (uv s u)) pnet0) in H.
  pose proof (make_pyvis_ids s u) as IDS.
  destruct (other_some_inv _ _ _ _ Ho) as [[E1 E2]|[E1 E2]].
  - eapply (pv_loop_joined s (uv s u) ND i vi j vj e); eauto. now apply enum_from_In0.
  - apply joined_sym. eapply (pv_loop_joined s (uv s u) ND j vj i vi e); eauto.
    + apply AS. unfold lv1 in E1. eapply nth_error_In; eauto.
    + now apply enum_from_In0.
Qed.
Theorem pyvis_every_internal_link_joined s u n :
  link_inv s -> NoDup (uv s u) -> make_pyvis_net s u = VOk n ->
  forall i j vi vj e, nth_error (uv s u) i = Some vi -> nth_error (uv s u) j = Some vj ->
    In e (vl s vi) -> other s e (Some vi) = OVal (Some vj) ->
    exists a, In (i, j, a) (pedges n) \/ In (j, i, a) (pedges n).
Proof. intros [AS _]. now apply pyvis_every_internal_link_joined_assoc. Qed.

Theorem pyvis_directed_count s u n : NoDup (uv s u) -> make_pyvis_net s u = VOk n ->
  forall i j vi vj, nth_error (uv s u) i = Some vi -> nth_error (uv s u) j = Some vj ->
  count_occ edge_dec (pedges n) (i, j, true) = length (filter (dir_link s vi vj) (vl s vi)).
Proof.
  intros ND H i j vi vj Hi Hj.
  unfold make_pyvis_net in H. fold (add_nodes (enum_from 0 (uv s u)) pnet0) in H.
  pose proof (make_pyvis_ids s u) as IDS.
  rewrite (pv_loop_count s (uv s u) ND i j vi vj Hi Hj (enum_from 0 (uv s u))
             (fun i v => proj1 (enum_from_In0 _ i v)) _ _ IDS H).
  destruct (add_nodes_gen (uv s u) 0 pnet0) as (_ & B & _); [intros ? []|]. rewrite B. cbn [pedges pnet0 count_occ].
  rewrite (sum_g_at s i vi vj (uv s u) 0); [reflexivity | lia | now rewrite Nat.sub_0_r].
Qed.

(* ============================================================================================ *)
(* Part U — PlantUML                                                                            *)
(* ============================================================================================ *)
Lemma mro_nodup c : NoDup (mro c).
Proof.
  destruct c as [[]| | | | |]; cbn;
    repeat (constructor; [cbn; intuition discriminate|]); constructor.
Qed.

Lemma find_split {A} (f : A -> bool) l x : find f l = Some x ->
  exists pre post, l = pre ++ x :: post /\ f x = true /\ forall y, In y pre -> f y = false.
Proof.
  induction l as [|y l IH]; cbn; [discriminate|].
  destruct (f y) eqn:E.
  - intros [= ->]. exists [], l. split; [reflexivity|]. split; [exact E|]. intros ? [].
  - intro H. destruct (IH H) as (pre & post & -> & Hx & Hp). exists (y :: pre), post.
    split; [reflexivity|]. split; [exact Hx|]. intros z [<-|Hz]; auto.
Qed.
Lemma nodup_split_unique {A} (x : A) pre post pre' post' :
  NoDup (pre ++ x :: post) -> pre ++ x :: post = pre' ++ x :: post' -> pre = pre'.
Proof.
  revert pre'. induction pre as [|a pre IH]; intros pre' ND E.
  - destruct pre' as [|b pre']; [reflexivity|]. cbn in E, ND. injection E as <- E'.
    apply NoDup_cons_iff in ND. destruct ND as [Hn _]. exfalso. apply Hn. rewrite E'.
    apply in_or_app. right. now left.
  - cbn in ND. apply NoDup_cons_iff in ND. destruct ND as [Hn ND].
    destruct pre' as [|b pre']; cbn in E; injection E as E0 E'.
    + subst a. exfalso. apply Hn. apply in_or_app. right. now left.
    + subst b. f_equal. now apply IH.
Qed.

Theorem resolve_spec conf c c' : resolve conf c = Some c' ->
  In c' (mro c) /\ conf c' = true /\
  forall c0 pre post, mro c = pre ++ c' :: post -> In c0 pre -> conf c0 = false.
Proof.
  unfold resolve. intro H. destruct (find_some _ _ H) as [Hin Hc]. split; [exact Hin|]. split; [exact Hc|].
  destruct (find_split _ _ _ H) as (pre0 & post0 & E & _ & Hp).
  intros c0 pre post E' Hc0. apply Hp.
  assert (pre0 = pre); [|now subst].
  apply (nodup_split_unique c' pre0 post0 pre post); [rewrite <- E; apply mro_nodup | congruence].
Qed.
Lemma resolve_none conf c : resolve conf c = None <-> forall c0, In c0 (mro c) -> conf c0 = false.
Proof.
  unfold resolve. split; [apply find_none|]. intro H.
  destruct (find conf (mro c)) as [x|] eqn:E; [|reflexivity].
  apply find_some in E. destruct E as [E1 E2]. rewrite (H x E1) in E2. discriminate.
Qed.

Lemma puml_empty conf s u : uv s u = [] -> render_puml conf s u = UOk None.
Proof. unfold render_puml. now intros ->. Qed.

Lemma puml_decls_spec conf s vs : forall ds, puml_decls conf s vs = Some ds ->
  map d_vertex ds = vs /\ forall x, In x ds -> resolve conf (PK (kd s (d_vertex x))) = Some (d_class x).
Proof.
  induction vs as [|v vs IH]; intros ds H; cbn [puml_decls] in H.
  - inversion H; subst. split; [reflexivity | intros ? []].
  - destruct (resolve conf (PK (kd s v))) as [c|] eqn:R; [|discriminate].
    destruct (puml_decls conf s vs) as [ds0|]; [|discriminate]. inversion H; subst.
    destruct (IH ds0 eq_refl) as [A B]. split; [cbn; now rewrite A|].
    intros x [<-|Hx]; [exact R | now apply B].
Qed.
Lemma puml_decls_none conf s vs : puml_decls conf s vs = None <->
  exists v, In v vs /\ resolve conf (PK (kd s v)) = None.
Proof.
  induction vs as [|v vs IH]; cbn [puml_decls In].
  - split; [discriminate | intros (? & [] & _)].
  - destruct (resolve conf (PK (kd s v))) as [c|] eqn:R.
    + destruct (puml_decls conf s vs) as [ds0|].
      * split; [discriminate|]. intros (w & [<-|Hw] & Hr); [congruence|].
        assert (X : Some ds0 = None) by (apply IH; eauto). discriminate.
      * split; [|reflexivity]. intros _. destruct (proj1 IH eq_refl) as (w & Hw & Hr). exists w. auto.
    + split; [|reflexivity]. intros _. exists v. auto.
Qed.

Lemma puml_rel_spec conf s l x : puml_rel conf s l = inl x ->
  r_link x = l /\ lv1 s l = Some (Some (r_v1 x)) /\ lv2 s l = Some (Some (r_v2 x)) /\
  resolve conf (PK (kd s l)) = Some (r_class x) /\
  resolve conf (PK (kd s (r_v1 x))) = Some (r_c1 x) /\ resolve conf (PK (kd s (r_v2 x))) = Some (r_c2 x).
Proof.
  unfold puml_rel. destruct (resolve conf (PK (kd s l))) as [c|]; [|discriminate].
  destruct (lv1 s l) as [a|]; [|discriminate]. destruct (lv2 s l) as [b|]; [|discriminate].
  destruct (resolve conf (ocls s a)) as [c1|] eqn:R1; [|discriminate].
  destruct (resolve conf (ocls s b)) as [c2|] eqn:R2; [|discriminate].
  destruct a as [a|]; [|discriminate]. destruct b as [b|]; [|discriminate].
  intros [= <-]. cbn. repeat split; auto.
Qed.
Lemma puml_rel_unconfigured conf s l : resolve conf (PK (kd s l)) = None -> puml_rel conf s l = inr ValueError.
Proof. unfold puml_rel. now intros ->. Qed.

Lemma puml_rels_spec conf s ls : forall rs, puml_rels conf s ls = inl rs ->
  map r_link rs = ls /\ Forall2 (fun l x => puml_rel conf s l = inl x) ls rs.
Proof.
  induction ls as [|l ls IH]; intros rs H; cbn [puml_rels] in H.
  - inversion H; subst. split; [reflexivity | constructor].
  - destruct (puml_rel conf s l) as [x|e] eqn:R; [|discriminate].
    destruct (puml_rels conf s ls) as [xs|e]; [|discriminate]. inversion H; subst.
    destruct (IH xs eq_refl) as [A B]. split.
    + cbn. f_equal; [|exact A]. now apply puml_rel_spec in R.
    + now constructor.
Qed.
Lemma puml_rels_in conf s ls rs x : puml_rels conf s ls = inl rs -> In x rs -> puml_rel conf s (r_link x) = inl x.
Proof.
  intros H Hx. apply puml_rels_spec in H. destruct H as [_ F].
  induction F as [|l y ls rs Hy F IH]; [destruct Hx|].
  destruct Hx as [<-|Hx]; [|now apply IH].
  pose proof (puml_rel_spec _ _ _ _ Hy) as (-> & _). exact Hy.
Qed.
Lemma puml_rels_ok_iff conf s ls : (exists rs, puml_rels conf s ls = inl rs) <->
  forall l, In l ls -> exists x, puml_rel conf s l = inl x.
Proof.
  induction ls as [|l ls IH]; cbn [puml_rels In].
  - split; [intros _ ? [] | intros _; now exists []].
  - destruct (puml_rel conf s l) as [x|e] eqn:R.
    + destruct (puml_rels conf s ls) as [xs|e'].
      * split; [|intros _; now eexists]. intros _ l0 [<-|H0]; [now exists x|].
        apply (proj1 IH); [now exists xs | exact H0].
      * split; [intros [rs H]; discriminate|]. intro H.
        destruct (proj2 IH) as [rs Hrs]; [intros; apply H; now right | discriminate].
    + split; [intros [rs H]; discriminate|]. intro H. destruct (H l (or_introl eq_refl)) as [x Hx]. congruence.
Qed.
Lemma puml_rels_flat conf s ls : forall rs, puml_rels conf s ls = inl rs ->
  rs = flat_map (fun l => match puml_rel conf s l with inl x => [x] | inr _ => [] end) ls.
Proof.
  induction ls as [|l ls IH]; intros rs H; cbn [puml_rels] in H.
  - now inversion H.
  - destruct (puml_rel conf s l) as [x|e] eqn:R; [|discriminate].
    destruct (puml_rels conf s ls) as [xs|e]; [|discriminate]. inversion H; subst.
    cbn [flat_map]. rewrite R. cbn [app]. f_equal. now apply IH.
Qed.

Lemma member_links_In s vs l : In l (member_links s vs) <-> exists m, In m vs /\ In l (vl s m).
Proof.
  unfold member_links. rewrite dedup_In, in_flat_map. tauto.
Qed.
Lemma member_links_NoDup s vs : NoDup (member_links s vs).
Proof. apply dedup_NoDup. Qed.

Lemma render_puml_ok_inv conf s u d : render_puml conf s u = UOk (Some d) ->
  uv s u <> [] /\ puml_decls conf s (uv s u) = Some (decls d) /\
  puml_rels conf s (member_links s (uv s u)) = inl (rels d).
Proof.
  unfold render_puml. destruct (uv s u) as [|v0 vs] eqn:EU; [discriminate|].
  destruct (puml_decls conf s (v0 :: vs)) as [ds|]; [|discriminate].
  destruct (puml_rels conf s (member_links s (v0 :: vs))) as [rs|e]; [|discriminate].
  intros [= <-]. cbn. split; [discriminate|]. split; reflexivity.
Qed.

Theorem puml_decls_exact conf s u d : render_puml conf s u = UOk (Some d) ->
  map d_vertex (decls d) = uv s u /\
  forall x, In x (decls d) -> resolve conf (PK (kd s (d_vertex x))) = Some (d_class x).
Proof. intro H. apply render_puml_ok_inv in H. destruct H as (_ & H & _). now apply puml_decls_spec. Qed.

Theorem puml_rels_exact conf s u d : render_puml conf s u = UOk (Some d) ->
  map r_link (rels d) = member_links s (uv s u) /\ NoDup (map r_link (rels d)) /\
  forall x, In x (rels d) ->
    lv1 s (r_link x) = Some (Some (r_v1 x)) /\ lv2 s (r_link x) = Some (Some (r_v2 x)) /\
    resolve conf (PK (kd s (r_link x))) = Some (r_class x).
Proof.
  intro H. apply render_puml_ok_inv in H. destruct H as (_ & _ & H).
  pose proof (puml_rels_spec _ _ _ _ H) as [A _]. split; [exact A|]. split; [rewrite A; apply member_links_NoDup|].
  intros x Hx. pose proof (puml_rels_in _ _ _ _ _ H Hx) as R. apply puml_rel_spec in R. tauto.
Qed.
(* the end classes of a relation are the nearest configured classes of its two ends *)
Theorem puml_rels_end_classes conf s u d : render_puml conf s u = UOk (Some d) ->
  forall x, In x (rels d) ->
    resolve conf (PK (kd s (r_v1 x))) = Some (r_c1 x) /\ resolve conf (PK (kd s (r_v2 x))) = Some (r_c2 x).
Proof.
  intro H. apply render_puml_ok_inv in H. destruct H as (_ & _ & H).
  intros x Hx. pose proof (puml_rels_in _ _ _ _ _ H Hx) as R. apply puml_rel_spec in R. tauto.
Qed.
Theorem puml_rels_real conf s u d : render_puml conf s u = UOk (Some d) ->
  forall x, In x (rels d) -> exists m, In m (uv s u) /\ In (r_link x) (vl s m).
Proof.
  intros H x Hx. apply (puml_rels_exact conf) in H. destruct H as (A & _).
  apply member_links_In. rewrite <- A. now apply in_map.
Qed.

Lemma nodup_map_unique {A B} (f : A -> B) l x y : NoDup (map f l) -> In x l -> In y l -> f x = f y -> x = y.
Proof.
  induction l as [|a l IH]; intros ND Hx Hy E; [destruct Hx|].
  cbn in ND. inversion ND as [|? ? Hn ND']; subst.
  destruct Hx as [->|Hx], Hy as [->|Hy]; auto.
  - exfalso. apply Hn. rewrite E. now apply in_map.
  - exfalso. apply Hn. rewrite <- E. now apply in_map.
Qed.

Theorem puml_listed_link_once conf s u d : render_puml conf s u = UOk (Some d) ->
  forall l a, In a (uv s u) -> In l (vl s a) -> exists! x, In x (rels d) /\ r_link x = l.
Proof.
  intros H l a Ha Hl. apply puml_rels_exact in H. destruct H as (A & ND & _).
  assert (Hin : In l (map r_link (rels d))) by (rewrite A; apply member_links_In; eauto).
  apply in_map_iff in Hin. destruct Hin as (x & Hx & Hxin). exists x. split; [auto|].
  intros y [Hy Ey]. eapply nodup_map_unique; eauto. congruence.
Qed.
Theorem puml_internal_link_once conf s u d : render_puml conf s u = UOk (Some d) ->
  forall l a b, lv s l = [Some a; Some b] -> In a (uv s u) -> In l (vl s a) ->
  exists! x, In x (rels d) /\ r_link x = l.
Proof. intros H l a b _. now apply (puml_listed_link_once conf s u d H). Qed.
Theorem puml_internal_link_ends conf s u d : render_puml conf s u = UOk (Some d) ->
  forall l a b x, lv s l = [Some a; Some b] -> In x (rels d) -> r_link x = l -> r_v1 x = a /\ r_v2 x = b.
Proof.
  intros H l a b x L Hx E. apply puml_rels_exact in H. destruct H as (_ & _ & H).
  destruct (H x Hx) as (H1 & H2 & _). rewrite E in H1, H2. unfold lv1, lv2 in *. rewrite L in H1, H2.
  cbn in H1, H2. split; congruence.
Qed.
Theorem puml_internal_link_count conf s u d : render_puml conf s u = UOk (Some d) ->
  forall l a, In a (uv s u) -> In l (vl s a) -> count_occ Nat.eq_dec (map r_link (rels d)) l = 1.
Proof.
  intros H l a Ha Hl. apply puml_rels_exact in H. destruct H as (A & ND & _).
  assert (Hin : In l (map r_link (rels d))) by (rewrite A; apply member_links_In; eauto).
  pose proof (proj1 (NoDup_count_occ Nat.eq_dec _) ND l). apply (count_occ_In Nat.eq_dec) in Hin. lia.
Qed.

(* U5: the order in which the set of links is iterated only permutes the relations *)
Theorem member_links_perm conf s ls ls' : Permutation ls' ls ->
  ((exists rs', puml_rels conf s ls' = inl rs') <-> (exists rs, puml_rels conf s ls = inl rs)) /\
  forall rs rs', puml_rels conf s ls = inl rs -> puml_rels conf s ls' = inl rs' -> Permutation rs' rs.
Proof.
  intro P. split.
  - rewrite !puml_rels_ok_iff. split; intros H l Hl; apply H.
    + eapply Permutation_in; [apply Permutation_sym|]; eauto.
    + eapply Permutation_in; eauto.
  - intros rs rs' H H'. rewrite (puml_rels_flat _ _ _ _ H), (puml_rels_flat _ _ _ _ H').
    now apply Permutation_flat_map.
Qed.

(* U6: the default option table *)
Definition conf0 (c : pcls) : bool := match c with PK KVertex | PK KDir | PK KUnd => true | _ => false end.
Example resolve_conf0_dirsub : resolve conf0 (PK KDirSub) = Some (PK KDir). Proof. reflexivity. Qed.
Example resolve_conf0_universe : resolve conf0 (PK KUniverse) = Some (PK KVertex). Proof. reflexivity. Qed.
Example resolve_conf0_vertexsub : resolve conf0 (PK KVertexSub) = Some (PK KVertex). Proof. reflexivity. Qed.
Example resolve_conf0_undsub : resolve conf0 (PK KUndSub) = Some (PK KUnd). Proof. reflexivity. Qed.
Example resolve_conf0_other : resolve conf0 (PK KOther) = None. Proof. reflexivity. Qed.

Theorem puml_unconfigured_link_raises conf s u m l :
  In m (uv s u) -> In l (vl s m) -> resolve conf (PK (kd s l)) = None ->
  exists e, render_puml conf s u = UErr e.
Proof.
  intros Hm Hl R. destruct (render_puml conf s u) as [[d|]|e] eqn:E; [| |now exists e]; exfalso.
  - pose proof (puml_listed_link_once _ _ _ _ E l m Hm Hl) as (x & [Hx Ex] & _).
    apply puml_rels_exact in E. destruct E as (_ & _ & E). destruct (E x Hx) as (_ & _ & R'). congruence.
  - unfold render_puml in E. destruct (uv s u) as [|v0 vs]; [destruct Hm|].
    destruct (puml_decls conf s (v0 :: vs)); [|discriminate].
    destruct (puml_rels conf s (member_links s (v0 :: vs))); discriminate.
Qed.
Theorem puml_unconfigured_vertex_raises conf s u m :
  In m (uv s u) -> resolve conf (PK (kd s m)) = None -> render_puml conf s u = UErr ValueError.
Proof.
  intros Hm R. unfold render_puml. destruct (uv s u) as [|v0 vs] eqn:EU; [destruct Hm|].
  replace (puml_decls conf s (v0 :: vs)) with (@None (list pdecl)); [reflexivity|].
  symmetry. apply puml_decls_none. eauto.
Qed.
Corollary puml_other_link_raises s u m l :
  In m (uv s u) -> In l (vl s m) -> kd s l = KOther -> exists e, render_puml conf0 s u = UErr e.
Proof. intros Hm Hl K. apply (puml_unconfigured_link_raises conf0 s u m l Hm Hl). now rewrite K. Qed.

(* ============================================================================================ *)
(* reachable states: the hypotheses of Part V hold after any history of API calls               *)
(* ============================================================================================ *)
Lemma reachable_members_nodup ops u : NoDup (uv (run ops empty) u).
Proof. apply (proj1 (proj2 (uni_inv_reachable ops))). Qed.
Corollary pyvis_reachable ops u n : let s := run ops empty in
  make_pyvis_net s u = VOk n ->
  pnodes n = enum_from 0 (uv s u) /\
  (forall i j arr, In (i, j, arr) (pedges n) ->
     exists vi vj e, nth_error (uv s u) i = Some vi /\ nth_error (uv s u) j = Some vj /\
       In e (vl s vi) /\ arr = is_directed (kd s e) /\ lv1 s e = Some (Some vi) /\ lv2 s e = Some (Some vj)) /\
  (forall i j vi vj e, nth_error (uv s u) i = Some vi -> nth_error (uv s u) j = Some vj ->
     In e (vl s vi) -> other s e (Some vi) = OVal (Some vj) ->
     exists a, In (i, j, a) (pedges n) \/ In (j, i, a) (pedges n)) /\
  (forall i j vi vj, nth_error (uv s u) i = Some vi -> nth_error (uv s u) j = Some vj ->
     count_occ edge_dec (pedges n) (i, j, true) = length (filter (dir_link s vi vj) (vl s vi))).
Proof.
  intros s H. pose proof (reachable_members_nodup ops u) as ND. pose proof (link_inv_reachable ops) as LI.
  split; [now apply pyvis_nodes_gen|]. split; [now apply pyvis_edges_oriented|].
  split; [now apply pyvis_every_internal_link_joined | now apply pyvis_directed_count].
Qed.

(* ============================================================================================ *)
(* non-vacuity: two vertices, a directed link 0->1, an undirected link 1-0, a directed          *)
(* self-loop 0->0, all in universe 5                                                            *)
(* ============================================================================================ *)
Definition ex_state : state :=
  run [NewVertex false [] []; NewVertex false [] []; NewEdge KDir (Some 0) (Some 1);
       NewEdge KUnd (Some 1) (Some 0); NewEdge KDir (Some 0) (Some 0); NewUniverse [0; 1] None] empty.
Example render_example :
  uv ex_state 5 = [0; 1] /\ vl ex_state 0 = [2; 3; 4] /\ vl ex_state 1 = [2; 3] /\
  basic_render std_filt std_r None ex_state 5 =
    POk (Some ("v0 -> v1, v1, v0" ++ newline ++ "v1 -> v0")%string) /\
  basic_render std_filt std_r (Some std_key) ex_state 5 =
    POk (Some ("v0 -> v0, v1, v1" ++ newline ++ "v1 -> v0")%string) /\
  make_pyvis_net ex_state 5 =
    VOk {| pnodes := [(0, 0); (1, 1)]; pedges := [(0, 1, true); (0, 0, true)]; pdirected := false |} /\
  (exists d, render_puml conf0 ex_state 5 = UOk (Some d) /\
     map (fun x => (d_vertex x, d_class x)) (decls d) = [(0, PK KVertex); (1, PK KVertex)] /\
     map (fun x => (r_link x, r_v1 x, r_v2 x, r_class x)) (rels d) =
       [(2, 0, 1, PK KDir); (3, 1, 0, PK KUnd); (4, 0, 0, PK KDir)]) /\
  basic_render std_filt std_r None ex_state 0 = POk None /\
  render_puml conf0 ex_state 0 = UOk None.
Proof. vm_compute. repeat split. eexists. repeat split. Qed.
(* the hypotheses of the conditional theorems hold in the example *)
Example render_example_hyps : NoDup (uv ex_state 5) /\ link_inv ex_state.
Proof. split; [apply reachable_members_nodup | apply link_inv_reachable]. Qed.

Print Assumptions basic_render_empty.
Print Assumptions basic_render_lines.
Print Assumptions isolated_vertex_line.
Print Assumptions pinned_line_eats_arrow.
Print Assumptions pinned_line_ok_when_neighbours.
Print Assumptions sort_by_permutation.
Print Assumptions sort_by_sorted.
Print Assumptions sort_by_strongly_sorted.
Print Assumptions sort_by_stable.
Print Assumptions basic_render_error.
Print Assumptions basic_render_error_iff.
Print Assumptions basic_render_error_some_iff.
Print Assumptions pyvis_nodes.
Print Assumptions pyvis_edges_oriented.
Print Assumptions pyvis_edges_are_real.
Print Assumptions pyvis_no_outside_vertex.
Print Assumptions pyvis_every_internal_link_joined.
Print Assumptions pyvis_directed_count.
Print Assumptions pyvis_reachable.
Print Assumptions puml_empty.
Print Assumptions resolve_spec.
Print Assumptions puml_decls_exact.
Print Assumptions puml_rels_exact.
Print Assumptions puml_rels_end_classes.
Print Assumptions puml_rels_real.
Print Assumptions puml_listed_link_once.
Print Assumptions puml_internal_link_once.
Print Assumptions puml_internal_link_ends.
Print Assumptions puml_internal_link_count.
Print Assumptions member_links_perm.
Print Assumptions resolve_conf0_dirsub.
Print Assumptions resolve_conf0_universe.
Print Assumptions resolve_conf0_other.
Print Assumptions puml_unconfigured_link_raises.
Print Assumptions puml_unconfigured_vertex_raises.
Print Assumptions puml_other_link_raises.
Print Assumptions render_example.
Print Assumptions render_example_hyps.
