(* RenderProofs.v — properties of the three renderers of Render.v (C14 PlantUML, C15 pyvis,
   C16 plain text).  Machine-checked, stdlib only, no axioms.

   Part P — plaintext.basic_render (C16)
     basic_render_empty            empty universe -> None
     basic_render_lines            one line per member, in universe order (or stably sorted order),
                                   line i = rendering ++ " -> " ++ renderings of the FORWARD
                                   neighbours joined by ", "; the lines are joined by newline
     isolated_vertex_line          a vertex without neighbours keeps its arrow
     pinned_line_eats_arrow        the pinned code turns "z -> " into "z -" (refutation witness)
     pinned_line_ok_when_neighbours  with >= 1 neighbour the pinned line equals the specified line
     sort_by_permutation / sort_by_sorted / sort_by_strongly_sorted / sort_by_stable
                                   sorted(key=..) is a stable sort
     basic_render_error (+ _iff, _some_iff)   an error is the error of neighbors() at the first
                                   failing member (in rendering order)

   Part V — pyvis.make_pyvis_net (C15)
     pyvis_nodes(_gen)             nodes = ids 0..n-1 in universe order
     pyvis_edges_oriented          every edge (i,j,arr) comes from a link e listed by member i whose
                                   v1 is member i and v2 is member j, arr = is_directed (class e)
     pyvis_edges_are_real          the requested statement (corollary)
     pyvis_no_outside_vertex       node ids / edge endpoints are indices < number of members
     pyvis_every_internal_link_joined   (link_inv) every link between two members leaves their
                                   nodes joined, in some orientation (self-loops included)
     pyvis_directed_count          the number of arrowed edges i->j = the number of directed links
                                   from member i to member j (no de-duplication of directed links)

   Part U — plantuml (C14)
     puml_empty, puml_decls_exact, resolve_spec, puml_rels_exact, puml_rels_real,
     puml_internal_link_once (+ puml_listed_link_once, puml_internal_link_ends),
     member_links_perm (independence of the set iteration order),
     resolve_conf0_* (default table), puml_unconfigured_link_raises, puml_unconfigured_vertex_raises

   Non-vacuity: render_example (a two-vertex universe with a directed, an undirected and a
   self-loop link, all three renderings computed).                                              *)
From Coq Require Import String Ascii List Lia Permutation Sorted.
From EG Require Import Base Lemmas State Nbrs Trav Struct LinkProofs UniProofs Render.
Import ListNotations.

(* ============================================================================================ *)
(* Part P — plain text                                                                          *)
(* ============================================================================================ *)
Definition newline : string := String "010"%char EmptyString.

(* ---- P4: sort_by is a stable sort ---- *)
Section SortBy.
  Context {A : Type}.
  Variable key : A -> nat.

  Lemma insert_by_perm x l : Permutation (insert_by key x l) (x :: l).
  Proof.
    induction l as [|y t IH]; cbn; [apply Permutation_refl|].
    destruct (Nat.leb (key x) (key y)); [apply Permutation_refl|].
    eapply Permutation_trans; [apply perm_skip, IH | apply perm_swap].
  Qed.
  Lemma sort_by_permutation l : Permutation (sort_by key l) l.
  Proof.
    induction l as [|x l IH]; cbn; [constructor|].
    eapply Permutation_trans; [apply insert_by_perm | now apply perm_skip].
  Qed.
  Lemma sort_by_length l : length (sort_by key l) = length l.
  Proof. apply Permutation_length, sort_by_permutation. Qed.
  Lemma sort_by_In l x : In x (sort_by key l) <-> In x l.
  Proof.
    split; apply Permutation_in; [apply sort_by_permutation | apply Permutation_sym, sort_by_permutation].
  Qed.

  Let le_key (a b : A) : Prop := key a <= key b.

  Lemma insert_by_ssorted x l : StronglySorted le_key l -> StronglySorted le_key (insert_by key x l).
  Proof.
    induction l as [|y t IH]; intro S; cbn.
    - constructor; constructor.
    - inversion S as [|? ? St Hy]; subst.
      destruct (Nat.leb (key x) (key y)) eqn:E.
      + apply Nat.leb_le in E. constructor; [exact S|].
        constructor; [exact E|]. rewrite Forall_forall in *. intros z Hz. unfold le_key in *.
        specialize (Hy z Hz). lia.
      + apply Nat.leb_gt in E. constructor; [now apply IH|].
        rewrite Forall_forall in *. intros z Hz.
        apply (Permutation_in _ (insert_by_perm x t)) in Hz. destruct Hz as [<-|Hz].
        * unfold le_key; lia.
        * now apply Hy.
  Qed.
  Lemma sort_by_strongly_sorted l : StronglySorted (fun a b => key a <= key b) (sort_by key l).
  Proof. induction l as [|x l IH]; cbn; [constructor | now apply insert_by_ssorted]. Qed.
  Lemma sort_by_sorted l : Sorted (fun a b => key a <= key b) (sort_by key l).
  Proof. apply StronglySorted_Sorted, sort_by_strongly_sorted. Qed.

  (* stability: the elements of any given key keep their relative order *)
  Lemma insert_by_filter k0 x l :
    filter (fun y => Nat.eqb (key y) k0) (insert_by key x l) =
    (if Nat.eqb (key x) k0 then [x] else []) ++ filter (fun y => Nat.eqb (key y) k0) l.
  Proof.
    induction l as [|y t IH]; cbn; [now destruct (Nat.eqb (key x) k0)|].
    destruct (Nat.leb (key x) (key y)) eqn:E; cbn.
    - destruct (Nat.eqb (key x) k0); reflexivity.
    - apply Nat.leb_gt in E. rewrite IH.
      destruct (Nat.eqb_spec (key x) k0) as [X|X]; destruct (Nat.eqb_spec (key y) k0) as [Y|Y]; cbn; try reflexivity.
      lia.
  Qed.
  Lemma sort_by_stable l k0 :
    filter (fun x => Nat.eqb (key x) k0) (sort_by key l) = filter (fun x => Nat.eqb (key x) k0) l.
  Proof.
    induction l as [|x l IH]; cbn; [reflexivity|].
    rewrite insert_by_filter, IH. destruct (Nat.eqb (key x) k0); reflexivity.
  Qed.
End SortBy.

Local Open Scope string_scope.
(* ============================================================================================ *)
(* strings                                                                                      *)
(* ============================================================================================ *)
Lemma sapp_assoc (a b c : string) : (a ++ b) ++ c = a ++ (b ++ c).
Proof. induction a as [|x a IH]; cbn; [reflexivity | now rewrite IH]. Qed.
Lemma sapp_nil_r (a : string) : a ++ "" = a.
Proof. induction a as [|x a IH]; cbn; [reflexivity | now rewrite IH]. Qed.

Lemma drop_last2_two (a : string) (x y : ascii) : drop_last2 (a ++ String x (String y "")) = a.
Proof.
  induction a as [|c a IH]; [reflexivity|].
  cbn [append]. cbn [drop_last2]. rewrite IH.
  destruct a as [|c1 a]; cbn; [reflexivity|]. destruct a; reflexivity.
Qed.

(* ---- P1..P3, P5 ---- *)
Section PlainProofs.
  Variable filt : nat -> nat -> option nat -> bool.
  Variable r : node -> string.
  Variable key : option (node -> nat).

  Lemma plain_order_perm vs : Permutation (plain_order key vs) vs.
  Proof. unfold plain_order. destruct key; [apply sort_by_permutation | apply Permutation_refl]. Qed.
  Lemma plain_order_length vs : length (plain_order key vs) = length vs.
  Proof. apply Permutation_length, plain_order_perm. Qed.
  Lemma plain_order_In vs v : In v (plain_order key vs) <-> In v vs.
  Proof. split; apply Permutation_in; [apply plain_order_perm | apply Permutation_sym, plain_order_perm]. Qed.
  Lemma plain_order_none vs : key = None -> plain_order key vs = vs.
  Proof. intros ->. reflexivity. Qed.
  Lemma plain_nbs_perm nbs : Permutation (plain_nbs key nbs) nbs.
  Proof. unfold plain_nbs. destruct key; [apply sort_by_permutation | apply Permutation_refl]. Qed.

  Lemma basic_render_empty s u : uv s u = [] -> basic_render filt r key s u = POk None.
  Proof. unfold basic_render. now intros ->. Qed.

  Lemma plain_lines_spec s vs : forall ls, plain_lines filt r key s vs = inl ls ->
    length ls = length vs /\
    forall i v, nth_error vs i = Some v ->
      exists nbs, neighbors_pure filt s v Fwd UErr None = NOk nbs /\
                  nth_error ls i = Some (plain_line r v (plain_nbs key nbs)).
  Proof.
    induction vs as [|w vs IH]; intros ls H; cbn in H.
    - inversion H; subst. split; [reflexivity|]. intros [|i] v Hi; discriminate.
    - destruct (neighbors_pure filt s w Fwd UErr None) as [nbs|e] eqn:EN; [|discriminate].
      destruct (plain_lines filt r key s vs) as [ls0|e]; [|discriminate].
      inversion H; subst. destruct (IH ls0 eq_refl) as [HL HN]. split; [cbn; now rewrite HL|].
      intros [|i] v Hi; cbn in Hi.
      + inversion Hi; subst. exists nbs. split; [exact EN | reflexivity].
      + cbn. now apply HN.
  Qed.

  Theorem basic_render_lines s u ls :
    uv s u <> [] ->
    plain_lines filt r key s (plain_order key (uv s u)) = inl ls ->
    basic_render filt r key s u = POk (Some (join newline ls)) /\
    length ls = length (uv s u) /\
    forall i v, nth_error (plain_order key (uv s u)) i = Some v ->
      exists nbs, neighbors_pure filt s v Fwd UErr None = NOk nbs /\
                  nth_error ls i = Some (plain_line r v (plain_nbs key nbs)).
  Proof.
    intros NE H. destruct (plain_lines_spec _ _ _ H) as [HL HN].
    split; [|split; [now rewrite HL, plain_order_length | exact HN]].
    unfold basic_render. destruct (uv s u) as [|v0 vs] eqn:EU; [congruence|].
    now rewrite H.
  Qed.

  (* the other direction: a successful rendering of a non-empty universe is such a join *)
  Lemma basic_render_ok_inv s u o : basic_render filt r key s u = POk o ->
    (uv s u = [] /\ o = None) \/
    (uv s u <> [] /\ exists ls, plain_lines filt r key s (plain_order key (uv s u)) = inl ls /\ o = Some (join newline ls)).
  Proof.
    unfold basic_render. destruct (uv s u) as [|v0 vs] eqn:EU.
    - intros [= <-]. now left.
    - destruct (plain_lines filt r key s (plain_order key (v0 :: vs))) as [ls|e]; [|discriminate].
      intros [= <-]. right. split; [discriminate|]. now exists ls.
  Qed.

  Lemma isolated_vertex_line v : plain_line r v [] = r (Some v) ++ " -> ".
  Proof. unfold plain_line. cbn. apply sapp_nil_r. Qed.

  Lemma concat_pinned nbs : nbs <> [] ->
    String.concat "" (map (fun e => r e ++ ", ") nbs) = join ", " (map r nbs) ++ ", ".
  Proof.
    induction nbs as [|x t IH]; [congruence|]. intros _.
    destruct t as [|y t]; [reflexivity|].
    change (String.concat "" (map (fun e => r e ++ ", ") (x :: y :: t)))
      with ((r x ++ ", ") ++ "" ++ String.concat "" (map (fun e => r e ++ ", ") (y :: t))).
    change (join ", " (map r (x :: y :: t))) with (r x ++ ", " ++ join ", " (map r (y :: t))).
    rewrite IH by discriminate. cbn [append]. now rewrite !sapp_assoc.
  Qed.
  Lemma pinned_line_ok_when_neighbours v nbs : nbs <> [] -> plain_line_pinned r v nbs = plain_line r v nbs.
  Proof.
    intro NE. unfold plain_line_pinned, plain_line. rewrite concat_pinned by exact NE.
    rewrite <- sapp_assoc. apply drop_last2_two.
  Qed.

  (* P5: errors *)
  Lemma plain_lines_err s vs e : plain_lines filt r key s vs = inr e <->
    exists pre v post, vs = pre ++ v :: post /\
      (forall w, In w pre -> exists nbs, neighbors_pure filt s w Fwd UErr None = NOk nbs) /\
      neighbors_pure filt s v Fwd UErr None = NErr e.
  Proof.
    induction vs as [|w vs IH]; cbn.
    - split; [discriminate|]. intros (pre & v & post & H & _). destruct pre; discriminate.
    - destruct (neighbors_pure filt s w Fwd UErr None) as [nbs|e0] eqn:EN.
      + destruct (plain_lines filt r key s vs) as [ls|e1].
        * split; [discriminate|]. intros (pre & v & post & H & Hpre & Hv).
          destruct pre as [|p pre]; cbn in H; inversion H; subst; [congruence|].
          assert (X : @inl (list string) exn ls = inr e); [|discriminate].
          apply IH. exists pre, v, post. split; [reflexivity|]. split; [|exact Hv].
          intros w0 Hw0. apply Hpre. now right.
        * split.
          -- intros [= ->]. destruct (proj1 IH eq_refl) as (pre & v & post & -> & Hpre & Hv).
             exists (w :: pre), v, post. split; [reflexivity|]. split; [|exact Hv].
             intros w0 [<-|Hw0]; [now exists nbs | now apply Hpre].
          -- intros (pre & v & post & H & Hpre & Hv).
             destruct pre as [|p pre]; cbn in H; inversion H; subst; [congruence|].
             f_equal. assert (X : @inr (list string) exn e1 = inr e); [|now inversion X].
             apply IH. exists pre, v, post. split; [reflexivity|]. split; [|exact Hv].
             intros w0 Hw0. apply Hpre. now right.
      + split.
        * intros [= ->]. exists [], w, vs. split; [reflexivity|]. split; [intros ? []|exact EN].
        * intros (pre & v & post & H & Hpre & Hv).
          destruct pre as [|p pre]; cbn in H; inversion H; subst; [congruence|].
          destruct (Hpre p (or_introl eq_refl)) as [nbs Hn]. congruence.
  Qed.

  Theorem basic_render_error_iff s u e : basic_render filt r key s u = PErr e <->
    exists pre v post, plain_order key (uv s u) = pre ++ v :: post /\
      (forall w, In w pre -> exists nbs, neighbors_pure filt s w Fwd UErr None = NOk nbs) /\
      neighbors_pure filt s v Fwd UErr None = NErr e.
  Proof.
    rewrite <- plain_lines_err. unfold basic_render. destruct (uv s u) as [|v0 vs] eqn:EU.
    - split; [discriminate|]. unfold plain_order. destruct key; cbn; discriminate.
    - destruct (plain_lines filt r key s (plain_order key (v0 :: vs))) as [ls|e1]; split; congruence.
  Qed.
  Theorem basic_render_error s u e : basic_render filt r key s u = PErr e ->
    uv s u <> [] /\ exists v, In v (uv s u) /\ neighbors_pure filt s v Fwd UErr None = NErr e.
  Proof.
    intro H. apply basic_render_error_iff in H. destruct H as (pre & v & post & HO & _ & Hv).
    assert (Hin : In v (uv s u)).
    { apply plain_order_In. rewrite HO. apply in_or_app. right. now left. }
    split; [intro E; rewrite E in Hin; exact Hin|]. now exists v.
  Qed.
  Theorem basic_render_error_some_iff s u : (exists e, basic_render filt r key s u = PErr e) <->
    exists v e, In v (uv s u) /\ neighbors_pure filt s v Fwd UErr None = NErr e.
  Proof.
    split.
    - intros [e H]. apply basic_render_error in H. destruct H as (_ & v & Hv & He). now exists v, e.
    - intros (v & e & Hv & He).
      destruct (basic_render filt r key s u) as [o|e1] eqn:EB; [|now exists e1].
      exfalso. apply basic_render_ok_inv in EB. destruct EB as [[E _]|(_ & ls & HL & _)].
      + rewrite E in Hv. exact Hv.
      + apply plain_order_In in Hv. apply In_nth_error in Hv. destruct Hv as [i Hi].
        destruct (plain_lines_spec _ _ _ HL) as [_ HN]. destruct (HN i v Hi) as (nbs & Hn & _). congruence.
  Qed.
End PlainProofs.

Local Close Scope string_scope.

Example pinned_line_eats_arrow : plain_line_pinned (fun _ => "z"%string) 0 [] = "z -"%string.
Proof. reflexivity. Qed.
