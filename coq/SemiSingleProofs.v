(* SemiSingleProofs.v — proofs about the semi-singleton model of SemiSingle.v (property C17).

   Proved here (all closed under the global context, stdlib only):

   0. swf : well-formedness invariant (instances in the table / the __init__ log are below the
      allocation counter; table keys pairwise distinct; every binding (c,k) |-> i has cls_of i = c;
      every allocated instance has exactly one __init__ record).
      swf_init, swf_step, swf_run, swf_reachable.
   1. construct_live_key_returns_it : a construction whose key is live returns that key's
      instance and changes nothing (no second __init__).
   2. construct_new_key_creates_fresh_instance : a construction whose key is not live allocates
      a brand new instance (different from every instance in the table), binds the key to it,
      the instance is of the class called and its __init__ ran exactly once, with that key.
   3. returned_instance_is_of_the_class_called.
   4. touches_key / step_keeps_key / run_keeps_key / same_instance_while_key_live : as long as no
      operation drops, clears or (conservatively) re-aliases the key, the key stays bound to the
      same instance, a later construction returns it again without changing the state and the
      __init__ log of the instance is unchanged (step_log_stable, run_log_stable).
   5. check_and_getall_are_readonly, check_reports_live_mapping,
      getall_reports_exactly_live_instances.
   6. Non-interference: other_classes_unaffected (lookup form; _strong drops the unused swf
      premise), getall_other_class_unchanged (filter form), getall_other_class_same_output,
      other_class_outcome_unchanged (outcome of any later operation of another class).
   7. drop_absent_raises_keyerror, drop_then_construct_is_new, clear_then_construct_is_new,
      add_mapping_aliases (+ add_mapping_unknown_instance_is_illtyped).
   8. semi_example : a concrete two-class history evaluated by vm_compute. *)
From EG Require Import Base Lemmas SemiSingle.
Arguments sinits_of : simpl never.

(* ------------------------------------------------------------------------------------------ *)
(* keys *)
Lemma skey_eqb_eq a b : skey_eqb a b = true <-> a = b.
Proof.
  destruct a as [a1 a2], b as [b1 b2]. unfold skey_eqb. cbn [fst snd].
  rewrite andb_true_iff, !Nat.eqb_eq. split; [intros [-> ->]; auto | intros [= -> ->]; auto].
Qed.
Lemma skey_eqb_refl a : skey_eqb a a = true.
Proof. now apply skey_eqb_eq. Qed.
Lemma skey_eqb_neq a b : skey_eqb a b = false <-> a <> b.
Proof.
  destruct (skey_eqb a b) eqn:E.
  - apply skey_eqb_eq in E. split; congruence.
  - split; auto. intros _ H. apply skey_eqb_eq in H. congruence.
Qed.
Lemma skey_eqb_class_neq c c' k k' : c <> c' -> skey_eqb (c, k) (c', k') = false.
Proof. intro H. apply skey_eqb_neq. congruence. Qed.

(* ------------------------------------------------------------------------------------------ *)
(* the table: slookup / sset / sdel / filters *)
Lemma slookup_In k t i : slookup k t = Some i -> In (k, i) t.
Proof.
  induction t as [|[k' j] r IH]; cbn; [discriminate|]. destruct (skey_eqb k k') eqn:E.
  - apply skey_eqb_eq in E. intros [= ->]. subst. now left.
  - intro H. right. auto.
Qed.
Lemma slookup_None k t : slookup k t = None <-> ~ In k (map fst t).
Proof.
  induction t as [|[k' j] r IH]; cbn; [tauto|]. destruct (skey_eqb k k') eqn:E.
  - apply skey_eqb_eq in E. subst. split; [discriminate | intro H; exfalso; apply H; now left].
  - apply skey_eqb_neq in E. rewrite IH.
    split; [intros H [H1|H1]; [congruence|auto] | intros H H1; apply H; now right].
Qed.
Lemma In_slookup k t i : NoDup (map fst t) -> In (k, i) t -> slookup k t = Some i.
Proof.
  induction t as [|[k' j] r IH]; cbn; [tauto|]. intros Hnd [H|H].
  - inversion H; subst. now rewrite skey_eqb_refl.
  - inversion Hnd as [|? ? Hk Hr]; subst. destruct (skey_eqb k k') eqn:E; [|auto].
    apply skey_eqb_eq in E. subst. exfalso. apply Hk. apply in_map_iff. exists (k', i). auto.
Qed.
Lemma slookup_iff_In k t i : NoDup (map fst t) -> (slookup k t = Some i <-> In (k, i) t).
Proof. intro H. split; [apply slookup_In | now apply In_slookup]. Qed.

Lemma slookup_sset k k' i t :
  slookup k' (sset k i t) = if skey_eqb k' k then Some i else slookup k' t.
Proof.
  induction t as [|[k0 j] r IH]; cbn.
  - destruct (skey_eqb k' k); auto.
  - destruct (skey_eqb k k0) eqn:E; cbn.
    + apply skey_eqb_eq in E. subst k0. destruct (skey_eqb k' k); auto.
    + rewrite IH. destruct (skey_eqb k' k0) eqn:E2; auto. destruct (skey_eqb k' k) eqn:E3; auto.
      apply skey_eqb_eq in E2, E3. subst. rewrite skey_eqb_refl in E. discriminate.
Qed.
Lemma slookup_sset_same k i t : slookup k (sset k i t) = Some i.
Proof. now rewrite slookup_sset, skey_eqb_refl. Qed.
Lemma slookup_sset_other k k' i t : k <> k' -> slookup k' (sset k i t) = slookup k' t.
Proof.
  intro H. rewrite slookup_sset. assert (skey_eqb k' k = false) as -> by (apply skey_eqb_neq; congruence).
  reflexivity.
Qed.
Lemma sset_keys k i t :
  map fst (sset k i t) = match slookup k t with Some _ => map fst t | None => map fst t ++ [k] end.
Proof.
  induction t as [|[k0 j] r IH]; cbn; auto. destruct (skey_eqb k k0) eqn:E; cbn; auto.
  rewrite IH. destruct (slookup k r); auto.
Qed.
Lemma sset_In k i t k' j : In (k', j) (sset k i t) -> (k' = k /\ j = i) \/ In (k', j) t.
Proof.
  induction t as [|[k0 j0] r IH]; cbn.
  - intros [[= <- <-]|[]]; auto.
  - destruct (skey_eqb k k0) eqn:E; cbn.
    + apply skey_eqb_eq in E. subst. intros [[= <- <-]|H]; auto.
    + intros [H|H]; auto. apply IH in H. tauto.
Qed.
Lemma sset_NoDup k i t : NoDup (map fst t) -> NoDup (map fst (sset k i t)).
Proof.
  intro H. rewrite sset_keys. destruct (slookup k t) eqn:E; auto.
  apply NoDup_app_snoc; auto. now apply slookup_None.
Qed.

Lemma slookup_filter_keep k f t :
  (forall k0 j, skey_eqb k k0 = true -> f (k0, j) = true) -> slookup k (filter f t) = slookup k t.
Proof.
  intro H. induction t as [|[k0 j] r IH]; cbn; auto. destruct (f (k0, j)) eqn:Ef; cbn.
  - now rewrite IH.
  - destruct (skey_eqb k k0) eqn:E; auto. rewrite (H _ j E) in Ef. discriminate.
Qed.
Lemma slookup_filter_drop k f t :
  (forall k0 j, skey_eqb k k0 = true -> f (k0, j) = false) -> slookup k (filter f t) = None.
Proof.
  intro H. induction t as [|[k0 j] r IH]; cbn; auto. destruct (f (k0, j)) eqn:Ef; cbn; auto.
  destruct (skey_eqb k k0) eqn:E; auto. rewrite (H _ j E) in Ef. discriminate.
Qed.
Lemma slookup_sdel_same k t : slookup k (sdel k t) = None.
Proof. unfold sdel. apply slookup_filter_drop. intros k0 j E. cbn. now rewrite E. Qed.
Lemma slookup_sdel_other k k' t : k <> k' -> slookup k' (sdel k t) = slookup k' t.
Proof.
  intro H. unfold sdel. apply slookup_filter_keep. intros k0 j E. cbn.
  apply skey_eqb_eq in E. subst k0. apply negb_true_iff. now apply skey_eqb_neq.
Qed.
Lemma slookup_clear_same c k t :
  slookup (c, k) (filter (fun p => negb (Nat.eqb c (fst (fst p)))) t) = None.
Proof.
  apply slookup_filter_drop. intros k0 j E. apply skey_eqb_eq in E. subst k0. cbn.
  now rewrite Nat.eqb_refl.
Qed.
Lemma slookup_clear_other c c' k t : c' <> c ->
  slookup (c', k) (filter (fun p => negb (Nat.eqb c (fst (fst p)))) t) = slookup (c', k) t.
Proof.
  intro H. apply slookup_filter_keep. intros k0 j E. apply skey_eqb_eq in E. subst k0. cbn.
  apply negb_true_iff. apply Nat.eqb_neq. congruence.
Qed.
Lemma NoDup_map_filter {A B} (f : A -> B) p (l : list A) : NoDup (map f l) -> NoDup (map f (filter p l)).
Proof.
  induction l as [|x l IH]; cbn; auto. intro H. inversion H as [|? ? Hx Hl]; subst.
  destruct (p x); cbn; auto. constructor; auto. intro Hin. apply Hx.
  apply in_map_iff in Hin. destruct Hin as [y [E Hy]]. apply filter_In in Hy.
  apply in_map_iff. exists y. tauto.
Qed.
Lemma filter_filter_absorb {A} (f g : A -> bool) (l : list A) :
  (forall x, f x = true -> g x = true) -> filter f (filter g l) = filter f l.
Proof.
  intro H. induction l as [|x l IH]; cbn; auto. destruct (g x) eqn:Eg; cbn.
  - now rewrite IH.
  - destruct (f x) eqn:Ef; auto. rewrite (H _ Ef) in Eg. discriminate.
Qed.
Lemma filter_sset_other_class c' c k i t : c' <> c ->
  filter (fun p => Nat.eqb c' (fst (fst p))) (sset (c, k) i t) =
  filter (fun p => Nat.eqb c' (fst (fst p))) t.
Proof.
  intro H. assert (En : Nat.eqb c' c = false) by now apply Nat.eqb_neq.
  induction t as [|[k0 j] r IH]; cbn.
  - now rewrite En.
  - destruct (skey_eqb (c, k) k0) eqn:E; cbn.
    + apply skey_eqb_eq in E. subst k0. cbn. now rewrite En.
    + now rewrite IH.
Qed.

(* ------------------------------------------------------------------------------------------ *)
(* the __init__ log: cls_of / sinits_of *)
Lemma cls_of_app i l m :
  cls_of i (l ++ m) = match cls_of i l with Some c => Some c | None => cls_of i m end.
Proof. induction l as [|[j [c k]] r IH]; cbn; auto. destruct (Nat.eqb i j); auto. Qed.
Lemma cls_of_fresh i l : (forall e, In e l -> fst e <> i) -> cls_of i l = None.
Proof.
  intro H. induction l as [|[j [c k]] r IH]; cbn; auto. destruct (Nat.eqb i j) eqn:E.
  - apply Nat.eqb_eq in E. exfalso. apply (H (j, (c, k))); [now left | cbn; congruence].
  - apply IH. intros e He. apply H. now right.
Qed.
Lemma cls_of_In i l c : cls_of i l = Some c -> exists k, In (i, (c, k)) l.
Proof.
  induction l as [|[j [c0 k0]] r IH]; cbn; [discriminate|]. destruct (Nat.eqb i j) eqn:E.
  - apply Nat.eqb_eq in E. intros [= ->]. subst. exists k0. now left.
  - intro H. destruct (IH H) as [k Hk]. exists k. now right.
Qed.
Lemma cls_of_app_some i l m c : cls_of i l = Some c -> cls_of i (l ++ m) = Some c.
Proof. intro H. now rewrite cls_of_app, H. Qed.
Lemma sinits_of_app i l m : sinits_of i (l ++ m) = sinits_of i l ++ sinits_of i m.
Proof. unfold sinits_of. now rewrite filter_app, map_app. Qed.
Lemma sinits_of_fresh i l : (forall e, In e l -> fst e <> i) -> sinits_of i l = [].
Proof.
  intro H. unfold sinits_of. induction l as [|e l IH]; cbn; auto.
  destruct (Nat.eqb i (fst e)) eqn:E; [apply Nat.eqb_eq in E; exfalso; eapply H; [now left|auto]|].
  apply IH. intros; apply H; now right.
Qed.
Lemma sinits_of_single_same i c k : sinits_of i [(i, (c, k))] = [(c, k)].
Proof. unfold sinits_of. cbn. now rewrite Nat.eqb_refl. Qed.
Lemma sinits_of_single_other i j c k : i <> j -> sinits_of i [(j, (c, k))] = [].
Proof. intro H. unfold sinits_of. cbn. apply Nat.eqb_neq in H. now rewrite H. Qed.

(* ------------------------------------------------------------------------------------------ *)
(* 0. well-formedness *)
Definition swf (s : ss) : Prop :=
  (forall k i, In (k, i) (stbl s) -> i < snxt s) /\
  (forall e, In e (slog s) -> fst e < snxt s) /\
  NoDup (map fst (stbl s)) /\
  (forall c k i, slookup (c, k) (stbl s) = Some i -> cls_of i (slog s) = Some c) /\
  (forall i, i < snxt s -> exists c k, sinits_of i (slog s) = [(c, k)] /\ cls_of i (slog s) = Some c).

Lemma swf_init : swf ss_init.
Proof.
  unfold swf. cbn. refine (conj _ (conj _ (conj _ (conj _ _)))); try tauto.
  - constructor.
  - discriminate.
  - intros i Hi. lia.
Qed.

Lemma swf_lookup_lt s k i : swf s -> slookup k (stbl s) = Some i -> i < snxt s.
Proof. intros (H1 & _) H. eapply H1, slookup_In, H. Qed.
Lemma swf_log_fresh s : swf s -> forall e, In e (slog s) -> fst e <> snxt s.
Proof. intros (_ & H2 & _) e He. apply H2 in He. lia. Qed.
Lemma swf_cls_lt s i c : swf s -> cls_of i (slog s) = Some c -> i < snxt s.
Proof. intros (_ & H2 & _) H. apply cls_of_In in H. destruct H as [k Hk]. apply H2 in Hk. exact Hk. Qed.

Lemma swf_step s o : swf s -> swf (fst (sstep s o)).
Proof.
  intros Hw. pose proof Hw as (H1 & H2 & H3 & H4 & H5).
  destruct o as [c k|i k|c k|c k|c|c]; cbn [sstep].
  - (* SConstruct *)
    destruct (slookup (c, k) (stbl s)) eqn:E; cbn [fst]; [exact Hw|].
    pose proof (swf_log_fresh s Hw) as Hf.
    unfold swf; cbn [stbl snxt slog]. refine (conj _ (conj _ (conj _ (conj _ _)))).
    + intros k' j Hin. apply sset_In in Hin. destruct Hin as [[_ ->]|Hin]; [lia|]. apply H1 in Hin. lia.
    + intros e Hin. apply in_app_iff in Hin. destruct Hin as [Hin|[<-|[]]]; [apply H2 in Hin|cbn]; lia.
    + now apply sset_NoDup.
    + intros c' k' j Hl. rewrite slookup_sset in Hl. destruct (skey_eqb (c', k') (c, k)) eqn:Ek.
      * apply skey_eqb_eq in Ek. inversion Ek; subst. inversion Hl; subst.
        rewrite cls_of_app, (cls_of_fresh _ _ Hf). cbn. now rewrite Nat.eqb_refl.
      * apply cls_of_app_some. eapply H4; eauto.
    + intros j Hj. destruct (Nat.eq_dec j (snxt s)) as [->|Hne].
      * exists c, k. rewrite sinits_of_app, (sinits_of_fresh _ _ Hf), sinits_of_single_same.
        rewrite cls_of_app, (cls_of_fresh _ _ Hf). cbn. now rewrite Nat.eqb_refl.
      * destruct (H5 j) as (c0 & k0 & Hi & Hc); [lia|]. exists c0, k0.
        rewrite sinits_of_app, sinits_of_single_other, app_nil_r by exact Hne.
        split; auto. now apply cls_of_app_some.
  - (* SAddMapping *)
    destruct (cls_of i (slog s)) as [c|] eqn:E; cbn [fst]; [|exact Hw].
    unfold swf; cbn [stbl snxt slog]. refine (conj _ (conj _ (conj _ (conj _ _)))); auto.
    + intros k' j Hin. apply sset_In in Hin. destruct Hin as [[_ ->]|Hin]; [|eauto].
      eapply swf_cls_lt; eauto.
    + now apply sset_NoDup.
    + intros c' k' j Hl. rewrite slookup_sset in Hl. destruct (skey_eqb (c', k') (c, k)) eqn:Ek.
      * apply skey_eqb_eq in Ek. inversion Ek; subst. inversion Hl; subst. exact E.
      * eapply H4; eauto.
  - (* SDrop *)
    destruct (slookup (c, k) (stbl s)) eqn:E; cbn [fst]; [|exact Hw].
    unfold swf; cbn [stbl snxt slog]. refine (conj _ (conj _ (conj _ (conj _ _)))); auto.
    + intros k' j Hin. apply filter_In in Hin. destruct Hin as [Hin _]. eauto.
    + now apply NoDup_map_filter.
    + intros c' k' j Hl. apply slookup_In in Hl. apply filter_In in Hl. destruct Hl as [Hl _].
      apply In_slookup in Hl; eauto.
  - exact Hw.
  - exact Hw.
  - (* SClear *)
    cbn [fst]. unfold swf; cbn [stbl snxt slog]. refine (conj _ (conj _ (conj _ (conj _ _)))); auto.
    + intros k' j Hin. apply filter_In in Hin. destruct Hin as [Hin _]. eauto.
    + now apply NoDup_map_filter.
    + intros c' k' j Hl. apply slookup_In in Hl. apply filter_In in Hl. destruct Hl as [Hl _].
      apply In_slookup in Hl; eauto.
Qed.

Lemma swf_run ops : forall s, swf s -> swf (srun ops s).
Proof. induction ops as [|o r IH]; cbn; auto. intros s H. apply IH. now apply swf_step. Qed.
Lemma swf_reachable ops : swf (srun ops ss_init).
Proof. apply swf_run, swf_init. Qed.

(* ------------------------------------------------------------------------------------------ *)
(* 1. constructing with a live key returns that key's instance; nothing changes *)
Theorem construct_live_key_returns_it s c k i :
  slookup (c, k) (stbl s) = Some i -> sstep s (SConstruct c k) = (s, SInst i).
Proof. intro H. cbn. now rewrite H. Qed.

(* 2. constructing with a key that is not live creates a brand new instance of the class called *)
Theorem construct_new_key_creates_fresh_instance s c k :
  swf s -> slookup (c, k) (stbl s) = None ->
  let s' := {| stbl := sset (c, k) (snxt s) (stbl s); snxt := S (snxt s);
               slog := slog s ++ [(snxt s, (c, k))] |} in
  exists i, sstep s (SConstruct c k) = (s', SInst i) /\ i = snxt s /\
    (forall kk j, In (kk, j) (stbl s) -> j <> i) /\
    slookup (c, k) (stbl s') = Some i /\
    cls_of i (slog s') = Some c /\
    sinits_of i (slog s') = [(c, k)].
Proof.
  intros Hw Hl s'. exists (snxt s). pose proof (swf_log_fresh s Hw) as Hf.
  destruct Hw as (H1 & _). subst s'. cbn [stbl snxt slog].
  refine (conj _ (conj eq_refl (conj _ (conj _ (conj _ _))))).
  - cbn. now rewrite Hl.
  - intros kk j Hin. apply H1 in Hin. lia.
  - apply slookup_sset_same.
  - rewrite cls_of_app, (cls_of_fresh _ _ Hf). cbn. now rewrite Nat.eqb_refl.
  - now rewrite sinits_of_app, (sinits_of_fresh _ _ Hf), sinits_of_single_same.
Qed.

(* 3. whatever a construction returns is an instance of the class that was called *)
Theorem returned_instance_is_of_the_class_called s c k i :
  swf s -> snd (sstep s (SConstruct c k)) = SInst i ->
  cls_of i (slog (fst (sstep s (SConstruct c k)))) = Some c.
Proof.
  intros Hw. cbn [sstep]. destruct (slookup (c, k) (stbl s)) as [j|] eqn:E; cbn [fst snd slog].
  - intros [= <-]. destruct Hw as (_ & _ & _ & H4 & _). eapply H4; eauto.
  - intros [= <-]. rewrite cls_of_app, (cls_of_fresh _ _ (swf_log_fresh s Hw)). cbn.
    now rewrite Nat.eqb_refl.
Qed.

(* every construction ends with its key bound to the instance it returned *)
Lemma construct_binds s c k : exists i, snd (sstep s (SConstruct c k)) = SInst i /\
  slookup (c, k) (stbl (fst (sstep s (SConstruct c k)))) = Some i.
Proof.
  cbn [sstep]. destruct (slookup (c, k) (stbl s)) as [j|] eqn:E; cbn [fst snd stbl]; eauto.
  eexists; split; eauto. apply slookup_sset_same.
Qed.

(* two live keys of one class bound to different instances stay different: constructing with a
   different key never returns the instance of this key unless it was aliased to it *)
Theorem construct_other_key_not_aliased_is_different s c k k' i :
  swf s -> slookup (c, k) (stbl s) = Some i -> slookup (c, k') (stbl s) <> Some i ->
  snd (sstep s (SConstruct c k')) <> SInst i.
Proof.
  intros Hw Hl Hn. cbn [sstep]. destruct (slookup (c, k') (stbl s)) as [j|] eqn:E; cbn [snd].
  - congruence.
  - intros [= Hi]. apply (swf_lookup_lt _ _ _ Hw) in Hl. lia.
Qed.

(* ------------------------------------------------------------------------------------------ *)
(* 4. the key keeps its instance while nothing removes or rebinds it *)
Definition touches_key (o : sop) (c k : nat) : bool :=
  match o with
  | SDrop c' k' => Nat.eqb c' c && Nat.eqb k' k
  | SClear c' => Nat.eqb c' c
  | SAddMapping _ k' => Nat.eqb k' k          (* conservative: whatever the class of the object *)
  | _ => false
  end.
Notation touches := touches_key (only parsing).

Lemma step_keeps_key s o c k i : touches o c k = false -> slookup (c, k) (stbl s) = Some i ->
  slookup (c, k) (stbl (fst (sstep s o))) = Some i.
Proof.
  intros Ht Hl. destruct o as [c' k'|j k'|c' k'|c' k'|c'|c']; cbn [sstep touches_key] in *; auto.
  - destruct (slookup (c', k') (stbl s)) eqn:E; cbn [fst stbl]; auto.
    rewrite slookup_sset. destruct (skey_eqb (c, k) (c', k')) eqn:Ek; auto.
    apply skey_eqb_eq in Ek. inversion Ek; subst. congruence.
  - destruct (cls_of j (slog s)) as [cj|]; cbn [fst stbl]; auto.
    rewrite slookup_sset_other; auto. apply Nat.eqb_neq in Ht. congruence.
  - destruct (slookup (c', k') (stbl s)) eqn:E; cbn [fst stbl]; auto.
    rewrite slookup_sdel_other; auto. apply andb_false_iff in Ht.
    destruct Ht as [Ht|Ht]; apply Nat.eqb_neq in Ht; congruence.
  - cbn [fst stbl]. rewrite slookup_clear_other; auto. apply Nat.eqb_neq in Ht. congruence.
Qed.
Lemma run_keeps_key ops : forall s c k i, (forall o, In o ops -> touches o c k = false) ->
  slookup (c, k) (stbl s) = Some i -> slookup (c, k) (stbl (srun ops s)) = Some i.
Proof.
  induction ops as [|o r IH]; cbn; auto. intros s c k i Ht Hl.
  apply IH; [intros; apply Ht; auto|]. apply step_keeps_key; auto.
Qed.

(* the log of an allocated instance never changes; the allocation counter never decreases *)
Lemma step_log_stable s o i : i < snxt s ->
  sinits_of i (slog (fst (sstep s o))) = sinits_of i (slog s) /\ snxt s <= snxt (fst (sstep s o)).
Proof.
  intros Hi. destruct o as [c k|j k|c k|c k|c|c]; cbn [sstep].
  - destruct (slookup (c, k) (stbl s)); cbn [fst slog snxt]; auto.
    rewrite sinits_of_app, sinits_of_single_other, app_nil_r by lia. split; auto.
  - destruct (cls_of j (slog s)); cbn [fst slog snxt]; auto.
  - destruct (slookup (c, k) (stbl s)); cbn [fst slog snxt]; auto.
  - auto.
  - auto.
  - auto.
Qed.
Lemma run_log_stable ops : forall s i, i < snxt s ->
  sinits_of i (slog (srun ops s)) = sinits_of i (slog s) /\ snxt s <= snxt (srun ops s).
Proof.
  unfold srun. induction ops as [|o r IH]; cbn [fold_left]; auto. intros s i Hi.
  destruct (step_log_stable s o i Hi) as [E Hn].
  destruct (IH (fst (sstep s o)) i) as [E2 Hn2]; [lia|]. split; [congruence|lia].
Qed.
Lemma step_cls_stable s o i c : cls_of i (slog s) = Some c -> cls_of i (slog (fst (sstep s o))) = Some c.
Proof.
  intro H. destruct o as [c0 k|j k|c0 k|c0 k|c0|c0]; cbn [sstep]; auto.
  - destruct (slookup (c0, k) (stbl s)); cbn [fst slog]; auto. now apply cls_of_app_some.
  - destruct (cls_of j (slog s)); cbn [fst slog]; auto.
  - destruct (slookup (c0, k) (stbl s)); cbn [fst slog]; auto.
Qed.

Theorem same_instance_while_key_live s ops c k i :
  swf s -> slookup (c, k) (stbl s) = Some i -> (forall o, In o ops -> touches o c k = false) ->
  slookup (c, k) (stbl (srun ops s)) = Some i /\
  sstep (srun ops s) (SConstruct c k) = (srun ops s, SInst i) /\
  sinits_of i (slog (fst (sstep (srun ops s) (SConstruct c k)))) = sinits_of i (slog s).
Proof.
  intros Hw Hl Ht. assert (Hr : slookup (c, k) (stbl (srun ops s)) = Some i) by (apply run_keeps_key; auto).
  split; [exact Hr|]. rewrite (construct_live_key_returns_it _ _ _ _ Hr). split; [reflexivity|].
  cbn [fst]. apply run_log_stable. eapply swf_lookup_lt; eauto.
Qed.

(* the same, starting from the construction that bound the key: every later construction with that
   key returns the very object the first one returned, and its __init__ ran exactly once *)
Corollary same_instance_between_removals s ops c k :
  swf s -> (forall o, In o ops -> touches o c k = false) ->
  let s1 := fst (sstep s (SConstruct c k)) in
  let s2 := srun ops s1 in
  sstep s2 (SConstruct c k) = (s2, snd (sstep s (SConstruct c k))) /\
  exists i c0 k0, snd (sstep s (SConstruct c k)) = SInst i /\ sinits_of i (slog s2) = [(c0, k0)].
Proof.
  intros Hw Ht s1 s2. destruct (construct_binds s c k) as [i [Hr Hl]]. rewrite Hr.
  assert (Hw1 : swf s1) by now apply swf_step.
  destruct (same_instance_while_key_live s1 ops c k i Hw1 Hl Ht) as (_ & Hs & _). split; [exact Hs|].
  pose proof (swf_lookup_lt _ _ _ Hw1 Hl) as Hi.
  destruct Hw1 as (_ & _ & _ & _ & H5). destruct (H5 i Hi) as (c0 & k0 & Hin & _).
  exists i, c0, k0. split; auto. subst s2. destruct (run_log_stable ops s1 i Hi) as [E _]. congruence.
Qed.

(* ------------------------------------------------------------------------------------------ *)
(* 5. check / get_all are read-only and report exactly the live mappings *)
Theorem check_and_getall_are_readonly s c k :
  fst (sstep s (SCheck c k)) = s /\ fst (sstep s (SGetAll c)) = s.
Proof. split; reflexivity. Qed.
Theorem check_reports_live_mapping s c k :
  snd (sstep s (SCheck c k)) = match slookup (c, k) (stbl s) with Some i => SInst i | None => SNone end.
Proof. reflexivity. Qed.
Theorem getall_reports_exactly_live_instances s c l :
  swf s -> snd (sstep s (SGetAll c)) = SList l ->
  forall i, In i l <-> exists k, slookup (c, k) (stbl s) = Some i.
Proof.
  intros (_ & _ & Hnd & _) Hs i. cbn in Hs. inversion Hs; subst l. clear Hs. rewrite in_map_iff. split.
  - intros [[[c0 k0] j] [Ej Hin]]. cbn in Ej. subst j. apply filter_In in Hin. destruct Hin as [Hin Hc].
    cbn in Hc. apply Nat.eqb_eq in Hc. subst c0. exists k0. now apply In_slookup.
  - intros [k Hl]. apply slookup_In in Hl. exists ((c, k), i). split; auto. apply filter_In. split; auto.
    cbn. apply Nat.eqb_refl.
Qed.

(* ------------------------------------------------------------------------------------------ *)
(* 6. non-interference between classes *)
Theorem other_classes_unaffected_strong s o c c' :
  sop_class s o = Some c -> c' <> c ->
  forall k, slookup (c', k) (stbl (fst (sstep s o))) = slookup (c', k) (stbl s).
Proof.
  intros Hc Hne k. destruct o as [c0 k0|j k0|c0 k0|c0 k0|c0|c0]; cbn [sstep sop_class] in *;
    try (injection Hc as ->); auto.
  - destruct (slookup (c, k0) (stbl s)); cbn [fst stbl]; auto.
    apply slookup_sset_other. congruence.
  - rewrite Hc. cbn [fst stbl]. apply slookup_sset_other. congruence.
  - destruct (slookup (c, k0) (stbl s)); cbn [fst stbl]; auto.
    apply slookup_sdel_other. congruence.
  - cbn [fst stbl]. now apply slookup_clear_other.
Qed.
Theorem other_classes_unaffected s o c c' :
  swf s -> sop_class s o = Some c -> c' <> c ->
  forall k, slookup (c', k) (stbl (fst (sstep s o))) = slookup (c', k) (stbl s).
Proof. intros _. apply other_classes_unaffected_strong. Qed.

Theorem getall_other_class_unchanged s o c c' :
  sop_class s o = Some c -> c' <> c ->
  filter (fun p => Nat.eqb c' (fst (fst p))) (stbl (fst (sstep s o))) =
  filter (fun p => Nat.eqb c' (fst (fst p))) (stbl s).
Proof.
  intros Hc Hne. destruct o as [c0 k0|j k0|c0 k0|c0 k0|c0|c0]; cbn [sstep sop_class] in *;
    try (injection Hc as ->); auto.
  - destruct (slookup (c, k0) (stbl s)); cbn [fst stbl]; auto.
    now apply filter_sset_other_class.
  - rewrite Hc. cbn [fst stbl]. now apply filter_sset_other_class.
  - destruct (slookup (c, k0) (stbl s)); cbn [fst stbl]; auto.
    unfold sdel. apply filter_filter_absorb. intros [[c1 k1] j] Hx. cbn in *.
    apply Nat.eqb_eq in Hx. subst c1. apply negb_true_iff. apply skey_eqb_class_neq. congruence.
  - cbn [fst stbl]. apply filter_filter_absorb. intros [[c1 k1] j] Hx. cbn in *.
    apply Nat.eqb_eq in Hx. subst c1. apply negb_true_iff. apply Nat.eqb_neq. congruence.
Qed.
Corollary getall_other_class_same_output s o c c' :
  sop_class s o = Some c -> c' <> c ->
  snd (sstep (fst (sstep s o)) (SGetAll c')) = snd (sstep s (SGetAll c')).
Proof. intros Hc Hne. cbn [sstep snd]. now rewrite (getall_other_class_unchanged s o c c' Hc Hne). Qed.

(* outcome form: interposing an operation [o] of class [c] does not change what any operation
   [o'] of another class [c'] returns.  (A construction that has to allocate returns the next free
   id, which of course depends on how many objects exist; so for constructions the statement is
   about live keys — that case is all the property speaks about.) *)
Theorem other_class_outcome_unchanged s o o' c c' :
  swf s -> sop_class s o = Some c -> sop_class s o' = Some c' -> c' <> c ->
  (forall k, o' = SConstruct c' k -> slookup (c', k) (stbl s) <> None) ->
  snd (sstep (fst (sstep s o)) o') = snd (sstep s o').
Proof.
  intros _ Hc Hc' Hne Hlive.
  pose proof (other_classes_unaffected_strong s o c c' Hc Hne) as Hlk.
  destruct o' as [c0 k0|j k0|c0 k0|c0 k0|c0|c0]; cbn [sop_class] in Hc'; try (injection Hc' as ->).
  - cbn [sstep]. rewrite Hlk. destruct (slookup (c', k0) (stbl s)) eqn:E; auto.
    exfalso. eapply Hlive; eauto.
  - cbn [sstep]. rewrite (step_cls_stable s o j c' Hc'), Hc'. reflexivity.
  - cbn [sstep]. rewrite Hlk. destruct (slookup (c', k0) (stbl s)); auto.
  - cbn [sstep snd]. now rewrite Hlk.
  - eapply getall_other_class_same_output; eauto.
  - reflexivity.
Qed.

(* ------------------------------------------------------------------------------------------ *)
(* 7. drop / clear / add_mapping *)
Theorem drop_absent_raises_keyerror s c k :
  slookup (c, k) (stbl s) = None -> sstep s (SDrop c k) = (s, SKeyError).
Proof. intro H. cbn. now rewrite H. Qed.
Theorem drop_removes_only_that_key s c k i :
  slookup (c, k) (stbl s) = Some i ->
  snd (sstep s (SDrop c k)) = SNone /\
  slookup (c, k) (stbl (fst (sstep s (SDrop c k)))) = None /\
  (forall c' k', (c', k') <> (c, k) ->
     slookup (c', k') (stbl (fst (sstep s (SDrop c k)))) = slookup (c', k') (stbl s)).
Proof.
  intro H. cbn [sstep]. rewrite H. cbn [fst snd stbl]. split; [reflexivity|]. split.
  - apply slookup_sdel_same.
  - intros c' k' Hne. apply slookup_sdel_other. congruence.
Qed.
Theorem drop_then_construct_is_new s c k i :
  swf s -> slookup (c, k) (stbl s) = Some i ->
  snd (sstep (fst (sstep s (SDrop c k))) (SConstruct c k)) <> SInst i.
Proof.
  intros Hw Hl. pose proof (swf_lookup_lt _ _ _ Hw Hl) as Hi.
  cbn [sstep]. rewrite Hl. cbn [fst stbl snxt]. rewrite slookup_sdel_same. cbn [snd].
  intros [= E]. lia.
Qed.
Theorem clear_removes_the_class s c k : slookup (c, k) (stbl (fst (sstep s (SClear c)))) = None.
Proof. cbn [sstep fst stbl]. apply slookup_clear_same. Qed.
Theorem clear_then_construct_is_new s c k i :
  swf s -> slookup (c, k) (stbl s) = Some i ->
  snd (sstep (fst (sstep s (SClear c))) (SConstruct c k)) <> SInst i.
Proof.
  intros Hw Hl. pose proof (swf_lookup_lt _ _ _ Hw Hl) as Hi.
  cbn [sstep fst stbl snxt]. rewrite slookup_clear_same. cbn [snd snxt].
  intros [= E]. lia.
Qed.
Theorem add_mapping_aliases s i k c :
  swf s -> cls_of i (slog s) = Some c ->
  slookup (c, k) (stbl (fst (sstep s (SAddMapping i k)))) = Some i.
Proof. intros _ Hc. cbn [sstep]. rewrite Hc. cbn [fst stbl]. apply slookup_sset_same. Qed.
Theorem add_mapping_then_construct_returns_object s i k c :
  swf s -> cls_of i (slog s) = Some c ->
  let s1 := fst (sstep s (SAddMapping i k)) in sstep s1 (SConstruct c k) = (s1, SInst i).
Proof. intros Hw Hc s1. apply construct_live_key_returns_it. now apply add_mapping_aliases. Qed.
Theorem add_mapping_unknown_instance_is_illtyped s i k :
  cls_of i (slog s) = None -> sstep s (SAddMapping i k) = (s, SIllTyped).
Proof. intro H. cbn. now rewrite H. Qed.

(* ------------------------------------------------------------------------------------------ *)
(* 8. non-vacuity: two classes (0 and 1) sharing one metaclass dict, an alias, a drop, a clear *)
Example semi_example :
  stranscript [SConstruct 0 5; SConstruct 1 5; SConstruct 0 5; SAddMapping 0 7; SConstruct 0 7;
               SDrop 1 5; SDrop 1 5; SConstruct 1 5; SCheck 0 7; SCheck 0 9; SGetAll 0;
               SClear 0; SConstruct 1 5; SConstruct 0 5; SGetAll 1; SGetAll 0; SAddMapping 9 1] ss_init
  = [(SInst 0, [(0, 5)]); (SInst 1, [(1, 5)]); (SInst 0, [(0, 5)]); (SNone, []); (SInst 0, [(0, 5)]);
     (SNone, []); (SKeyError, []); (SInst 2, [(1, 5)]); (SInst 0, [(0, 5)]); (SNone, []); (SList [0; 0], []);
     (SNone, []); (SInst 2, [(1, 5)]); (SInst 3, [(0, 5)]); (SList [2], []); (SList [3], []); (SIllTyped, [])].
Proof. vm_compute. reflexivity. Qed.

Print Assumptions swf_init.
Print Assumptions swf_step.
Print Assumptions swf_reachable.
Print Assumptions construct_live_key_returns_it.
Print Assumptions construct_new_key_creates_fresh_instance.
Print Assumptions returned_instance_is_of_the_class_called.
Print Assumptions construct_other_key_not_aliased_is_different.
Print Assumptions same_instance_while_key_live.
Print Assumptions same_instance_between_removals.
Print Assumptions check_and_getall_are_readonly.
Print Assumptions check_reports_live_mapping.
Print Assumptions getall_reports_exactly_live_instances.
Print Assumptions other_classes_unaffected.
Print Assumptions other_classes_unaffected_strong.
Print Assumptions getall_other_class_unchanged.
Print Assumptions getall_other_class_same_output.
Print Assumptions other_class_outcome_unchanged.
Print Assumptions drop_absent_raises_keyerror.
Print Assumptions drop_removes_only_that_key.
Print Assumptions drop_then_construct_is_new.
Print Assumptions clear_removes_the_class.
Print Assumptions clear_then_construct_is_new.
Print Assumptions add_mapping_aliases.
Print Assumptions add_mapping_then_construct_returns_object.
Print Assumptions add_mapping_unknown_instance_is_illtyped.
Print Assumptions semi_example.
