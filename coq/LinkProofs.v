(* LinkProofs.v — vertex<->link part of the structure model:
   (i) the fuelled mutual recursion of Struct.v computes exactly the plain reference edits of
       Ref.v for any fuel >= 3 (this is also the termination argument);
   (ii) pointwise effects of the reference edits; (iii) the association invariant (C01). *)
From EG Require Import Base Lemmas State StateLemmas Nbrs Struct Footprint StateRw Ref.

Ltac same_vl := rewrite vl_set_vl_same by (auto with st; srw; auto).
Ltac same_lv := rewrite lv_set_lv_same by (auto with st; srw; auto).

(* ---------- (i) impl = ref ---------- *)
Lemma v_add_to_link_ref f s v l : wf s -> v < next s -> l < next s ->
  v_add_to_link (S (S f)) s v l = Ok (r_v_add_to_link s v l).
Proof.
  intros W Hv Hl. cbn [v_add_to_link l_add_vertex]. unfold r_v_add_to_link.
  destruct (memn l (vl s v)) eqn:E1; [reflexivity|].
  destruct (memo (Some v) (lv (set_vl s v (vl s v ++ [l])) l)) eqn:E2; [reflexivity|].
  rewrite vl_set_lv. same_vl. rewrite memn_snoc. reflexivity.
Qed.

Lemma l_add_vertex_ref f s l ov : wf s -> l < next s -> (forall v, ov = Some v -> v < next s) ->
  l_add_vertex (S (S f)) s l ov = Ok (r_l_add_vertex s l ov).
Proof.
  intros W Hl Hv. cbn [v_add_to_link l_add_vertex]. unfold r_l_add_vertex.
  destruct ov as [v|]; [|reflexivity]. specialize (Hv v eq_refl).
  destruct (memn l (vl (set_lv s l (lv s l ++ [Some v])) v)) eqn:E1; [reflexivity|].
  rewrite lv_set_vl. same_lv. rewrite memo_app. cbn [memo existsb]. rewrite oeqb_refl, orb_true_r. reflexivity.
Qed.

Lemma v_remove_from_link_ref f s v l : wf s -> v < next s -> l < next s -> NoDup (vl s v) ->
  v_remove_from_link (S (S (S f))) s v l = Ok (r_v_remove_from_link s v l).
Proof.
  intros W Hv Hl Hnd. cbn [v_remove_from_link l_unlink_from]. unfold r_v_remove_from_link.
  destruct (memn l (vl s v)) eqn:E1; [|reflexivity].
  destruct (memo (Some v) (lv (set_vl s v (remove1 l (vl s v))) l)) eqn:E2; [|reflexivity].
  rewrite !vl_set_lv. same_vl. rewrite memn_remove1_nodup by exact Hnd. reflexivity.
Qed.

Lemma l_unlink_from_ref f s l ov : wf s -> l < next s -> (forall v, ov = Some v -> v < next s) ->
  l_unlink_from (S (S (S f))) s l ov = Ok (r_l_unlink_from s l ov).
Proof.
  intros W Hl Hv. cbn [v_remove_from_link l_unlink_from]. unfold r_l_unlink_from.
  destruct (memo ov (lv s l)) eqn:E1; [|reflexivity].
  destruct ov as [v|]; [|reflexivity]. specialize (Hv v eq_refl).
  destruct (memn l (vl (set_lv (set_lv s l (oremove1 (Some v) (lv s l))) l
             (oremove_all (Some v) (lv (set_lv s l (oremove1 (Some v) (lv s l))) l))) v)) eqn:E2; [|reflexivity].
  rewrite lv_set_vl. same_lv. rewrite memo_oremove_all. reflexivity.
Qed.

Lemma l_set_end_ref f s l idx new : wf s -> l < next s -> (forall v, new = Some v -> v < next s) ->
  (forall v, In (Some v) (lv s l) -> v < next s) -> (forall v, NoDup (vl s v)) ->
  l_set_end (S (S (S f))) s l idx new = r_l_set_end s l idx new.
Proof.
  intros W Hl Hn Hends Hnd. unfold l_set_end, r_l_set_end.
  destruct (lv1 s l) as [e1|] eqn:E1; [|reflexivity]. destruct (lv2 s l) as [e2|] eqn:E2; [|reflexivity].
  set (old := if Nat.eqb idx 0 then e1 else e2).
  set (s1 := set_lv s l (set idx new (lv s l))).
  assert (W1 : wf s1) by (subst s1; auto with st).
  assert (Hold : forall ov, old = Some ov -> ov < next s).
  { intros ov Ho. apply Hends. unfold lv1, lv2 in *. subst old.
    destruct (Nat.eqb idx 0); [apply nth_error_In in E1 | apply nth_error_In in E2]; congruence. }
  assert (R2 : (match old with
            | Some ov => if memo (Some ov) (lv s1 l) then Ok s1 else v_remove_from_link (S (S (S f))) s1 ov l
            | None => Ok s1 end) = Ok (match old with
                | Some ov => if memo (Some ov) (lv s1 l) then s1 else r_v_remove_from_link s1 ov l
                | None => s1 end)).
  { destruct old as [ov|]; [|reflexivity]. destruct (memo _ _); [reflexivity|].
    apply v_remove_from_link_ref; auto. subst s1. srw. auto. }
  rewrite R2. cbn [bind].
  set (s2 := match old with Some ov => _ | None => s1 end).
  assert (W2 : wf s2 /\ next s2 = next s).
  { subst s2. destruct old as [ov|]; [|split; auto]. destruct (memo _ _); [split; auto|].
    unfold r_v_remove_from_link. repeat match goal with |- context [if ?b then _ else _] => destruct b end;
      split; srw; auto 10 with st. }
  destruct W2 as [W2 N2].
  assert (R3 : (match new with
            | Some nv => if memn l (vl s2 nv) then Ok s2 else v_add_to_link (S (S (S f))) s2 nv l
            | None => Ok s2 end) = Ok (match new with
                | Some nv => if memn l (vl s2 nv) then s2 else r_v_add_to_link s2 nv l
                | None => s2 end)).
  { destruct new as [nv|]; [|reflexivity]. destruct (memn _ _); [reflexivity|].
    apply v_add_to_link_ref; auto; rewrite N2; auto. }
  rewrite R3. reflexivity.
Qed.

(* ---------- (ii)+(iii) the association invariant ---------- *)
From EG Require Import Lemmas2.

Definition assoc (s : state) : Prop := forall v l, In l (vl s v) <-> In (Some v) (lv s l).
Definition links_nodup (s : state) : Prop := forall v, NoDup (vl s v).
Definition link_inv (s : state) : Prop := assoc s /\ links_nodup s.

Lemma vl_set_vl_if s v A w : wf s -> v < next s -> vl (set_vl s v A) w = if Nat.eqb w v then A else vl s w.
Proof. intros W Hv. destruct (Nat.eqb_spec w v) as [->|N]; [now apply vl_set_vl_same | apply vl_set_vl_other; congruence]. Qed.
Lemma lv_set_lv_if s l B k : wf s -> l < next s -> lv (set_lv s l B) k = if Nat.eqb k l then B else lv s k.
Proof. intros W Hv. destruct (Nat.eqb_spec k l) as [->|N]; [now apply lv_set_lv_same | apply lv_set_lv_other; congruence]. Qed.

Lemma link_inv_ext s s' : (forall w, vl s' w = vl s w) -> (forall k, lv s' k = lv s k) -> link_inv s -> link_inv s'.
Proof. intros Hv Hl [Ha Hn]. split; [intros v l; rewrite Hv, Hl; apply Ha | intro v; rewrite Hv; apply Hn]. Qed.

Lemma assoc_add s s' v l : assoc s ->
  (forall w k, In k (vl s' w) <-> In k (vl s w) \/ (w = v /\ k = l)) ->
  (forall w k, In (Some w) (lv s' k) <-> In (Some w) (lv s k) \/ (w = v /\ k = l)) -> assoc s'.
Proof. intros Ha H1 H2 w k. rewrite H1, H2, (Ha w k). tauto. Qed.
Lemma assoc_del s s' v l : assoc s ->
  (forall w k, In k (vl s' w) <-> In k (vl s w) /\ ~ (w = v /\ k = l)) ->
  (forall w k, In (Some w) (lv s' k) <-> In (Some w) (lv s k) /\ ~ (w = v /\ k = l)) -> assoc s'.
Proof. intros Ha H1 H2 w k. rewrite H1, H2, (Ha w k). tauto. Qed.
Lemma assoc_same s s' : assoc s ->
  (forall w k, In k (vl s' w) <-> In k (vl s w)) ->
  (forall w k, In (Some w) (lv s' k) <-> In (Some w) (lv s k)) -> assoc s'.
Proof. intros Ha H1 H2 w k. rewrite H1, H2. apply Ha. Qed.

Ltac eqb_cases := repeat match goal with
  | |- context [Nat.eqb ?a ?b] => destruct (Nat.eqb_spec a b); subst
  | H : context [Nat.eqb ?a ?b] |- _ => destruct (Nat.eqb_spec a b); subst
  end.

(* --- add_to_link --- *)
Lemma r_v_add_to_link_inv s v l : wf s -> v < next s -> l < next s -> link_inv s -> link_inv (r_v_add_to_link s v l).
Proof.
  intros W Hv Hl [Ha Hn]. unfold r_v_add_to_link.
  destruct (memn l (vl s v)) eqn:E1.
  { apply (link_inv_ext s); [reflexivity|reflexivity|split; auto]. }
  rewrite lv_set_vl. destruct (memo (Some v) (lv s l)) eqn:E2.
  { apply memo_In in E2. apply Ha in E2. apply memn_nIn in E1. contradiction. }
  apply memn_nIn in E1. apply memo_nIn in E2.
  set (s2 := set_lv (set_vl s v (vl s v ++ [l])) l (lv s l ++ [Some v])).
  apply (link_inv_ext s2); [intro; srw; reflexivity | intro; srw; reflexivity|].
  assert (V : forall w, vl s2 w = if Nat.eqb w v then vl s v ++ [l] else vl s w).
  { intro w. subst s2. srw. now apply vl_set_vl_if. }
  assert (L : forall k, lv s2 k = if Nat.eqb k l then lv s l ++ [Some v] else lv s k).
  { intro k. subst s2. rewrite lv_set_lv_if by (auto with st). srw. reflexivity. }
  split.
  - apply (assoc_add s s2 v l Ha).
    + intros w k. rewrite V. destruct (Nat.eqb_spec w v) as [->|N].
      * rewrite in_app_iff. cbn. intuition congruence.
      * intuition congruence.
    + intros w k. rewrite L. destruct (Nat.eqb_spec k l) as [->|N].
      * rewrite in_app_iff. cbn. intuition congruence.
      * intuition congruence.
  - intro w. rewrite V. destruct (Nat.eqb_spec w v) as [->|N]; auto. apply NoDup_app_snoc; auto.
Qed.

(* --- add_vertex --- *)
Lemma r_l_add_vertex_inv s l ov : wf s -> l < next s -> (forall v, ov = Some v -> v < next s) ->
  link_inv s -> link_inv (r_l_add_vertex s l ov).
Proof.
  intros W Hl Hv [Ha Hn]. unfold r_l_add_vertex.
  set (s1 := set_lv s l (lv s l ++ [ov])).
  assert (W1 : wf s1) by (subst s1; auto with st).
  assert (L1 : forall k, lv s1 k = if Nat.eqb k l then lv s l ++ [ov] else lv s k).
  { intro k. subst s1. now apply lv_set_lv_if. }
  assert (V1 : forall w, vl s1 w = vl s w) by (intro; subst s1; srw; reflexivity).
  destruct ov as [v|].
  2:{ apply (link_inv_ext s1); [intro; srw; reflexivity | intro; srw; reflexivity|]. split.
      - apply (assoc_same s s1 Ha); [intros; now rewrite V1|].
        intros w k. rewrite L1. destruct (Nat.eqb_spec k l) as [->|N]; [|tauto].
        rewrite in_app_iff. cbn. intuition congruence.
      - intro w. rewrite V1. auto. }
  specialize (Hv v eq_refl). rewrite V1.
  destruct (memn l (vl s v)) eqn:E1.
  { apply (link_inv_ext s1); [intro; srw; reflexivity | intro; srw; reflexivity|]. apply memn_In in E1. split.
    - apply (assoc_same s s1 Ha); [intros; now rewrite V1|].
      intros w k. rewrite L1. destruct (Nat.eqb_spec k l) as [->|N]; [|tauto].
      rewrite in_app_iff. cbn. split; [|tauto]. intros [H|[H|[]]]; auto. inversion H; subst. now apply Ha.
    - intro w. rewrite V1. auto. }
  apply memn_nIn in E1.
  set (s2 := set_vl s1 v (vl s v ++ [l])).
  apply (link_inv_ext s2); [intro; srw; reflexivity | intro; srw; reflexivity|].
  assert (V2 : forall w, vl s2 w = if Nat.eqb w v then vl s v ++ [l] else vl s w).
  { intro w. subst s2. rewrite vl_set_vl_if by (subst s1; srw; auto). now rewrite V1. }
  assert (L2 : forall k, lv s2 k = lv s1 k) by (intro; subst s2; srw; reflexivity).
  split.
  - apply (assoc_add s s2 v l Ha).
    + intros w k. rewrite V2. destruct (Nat.eqb_spec w v) as [->|N].
      * rewrite in_app_iff. cbn. intuition congruence.
      * intuition congruence.
    + intros w k. rewrite L2, L1. destruct (Nat.eqb_spec k l) as [->|N].
      * rewrite in_app_iff. cbn. intuition congruence.
      * intuition congruence.
  - intro w. rewrite V2. destruct (Nat.eqb_spec w v) as [->|N]; auto. apply NoDup_app_snoc; auto.
Qed.

(* --- unlink_from --- *)
Lemma r_l_unlink_from_inv s l ov : wf s -> l < next s -> (forall v, ov = Some v -> v < next s) ->
  link_inv s -> link_inv (r_l_unlink_from s l ov).
Proof.
  intros W Hl Hv [Ha Hn]. unfold r_l_unlink_from.
  destruct (memo ov (lv s l)) eqn:E1; [|split; auto].
  set (s1 := set_lv s l (oremove1 ov (lv s l))).
  assert (W1 : wf s1) by (subst s1; auto with st).
  assert (L1 : forall k, lv s1 k = if Nat.eqb k l then oremove1 ov (lv s l) else lv s k).
  { intro k. subst s1. now apply lv_set_lv_if. }
  assert (V1 : forall w, vl s1 w = vl s w) by (intro; subst s1; srw; reflexivity).
  destruct ov as [v|].
  2:{ apply (link_inv_ext s1); [intro; srw; reflexivity | intro; srw; reflexivity|]. split.
      - apply (assoc_same s s1 Ha); [intros; now rewrite V1|].
        intros w k. rewrite L1. destruct (Nat.eqb_spec k l) as [->|N]; [|tauto].
        apply in_oremove1_iff. discriminate.
      - intro w. rewrite V1. auto. }
  specialize (Hv v eq_refl). apply memo_In in E1.
  set (s2 := set_lv s1 l (oremove_all (Some v) (lv s1 l))).
  assert (W2 : wf s2) by (subst s2; auto with st).
  assert (L2 : forall k, lv s2 k = if Nat.eqb k l then oremove_all (Some v) (lv s l) else lv s k).
  { intro k. subst s2. rewrite lv_set_lv_if by (auto; subst s1; srw; auto). rewrite !L1.
    destruct (Nat.eqb_spec k l) as [->|N]; auto. rewrite Nat.eqb_refl. apply oremove_all_oremove1. }
  assert (V2 : forall w, vl s2 w = vl s w) by (intro; subst s2; srw; apply V1).
  rewrite V2.
  assert (Hin : In l (vl s v)) by now apply Ha.
  assert (memn l (vl s v) = true) as -> by now apply memn_In.
  set (s3 := set_vl s2 v (remove1 l (vl s v))).
  apply (link_inv_ext s3); [intro; srw; reflexivity | intro; srw; reflexivity|].
  assert (V3 : forall w, vl s3 w = if Nat.eqb w v then remove1 l (vl s v) else vl s w).
  { intro w. subst s3. rewrite vl_set_vl_if by (auto; subst s2 s1; srw; auto). now rewrite V2. }
  assert (L3 : forall k, lv s3 k = lv s2 k) by (intro; subst s3; srw; reflexivity).
  split.
  - apply (assoc_del s s3 v l Ha).
    + intros w k. rewrite V3. destruct (Nat.eqb_spec w v) as [->|N].
      * rewrite in_remove1_iff by apply Hn. intuition congruence.
      * intuition congruence.
    + intros w k. rewrite L3, L2. destruct (Nat.eqb_spec k l) as [->|N].
      * rewrite in_oremove_all. split; intros [H1 H2]; (split; [exact H1|]).
        -- intros [-> _]. now apply H2.
        -- intros [= ->]. apply H2. auto.
      * intuition congruence.
  - intro w. rewrite V3. destruct (Nat.eqb_spec w v) as [->|N]; auto. apply NoDup_remove1; auto.
Qed.

(* --- remove_from_link --- *)
Lemma r_v_remove_from_link_inv s v l : wf s -> v < next s -> l < next s ->
  link_inv s -> link_inv (r_v_remove_from_link s v l).
Proof.
  intros W Hv Hl [Ha Hn]. unfold r_v_remove_from_link.
  destruct (memn l (vl s v)) eqn:E1.
  2:{ apply (link_inv_ext s); [reflexivity|reflexivity|split; auto]. }
  apply memn_In in E1. rewrite lv_set_vl.
  assert (E2 : memo (Some v) (lv s l) = true) by (apply memo_In; now apply Ha). rewrite E2.
  set (s0 := set_vl s v (remove1 l (vl s v))).
  set (s1 := set_lv s0 l (oremove1 (Some v) (lv s l))).
  set (s2 := set_lv s1 l (oremove_all (Some v) (lv s1 l))).
  apply (link_inv_ext s2); [intro; srw; reflexivity | intro; srw; reflexivity|].
  assert (W0 : wf s0) by (subst s0; auto with st).
  assert (W1 : wf s1) by (subst s1; auto with st).
  assert (V2 : forall w, vl s2 w = if Nat.eqb w v then remove1 l (vl s v) else vl s w).
  { intro w. subst s2 s1. srw. subst s0. now apply vl_set_vl_if. }
  assert (L2 : forall k, lv s2 k = if Nat.eqb k l then oremove_all (Some v) (lv s l) else lv s k).
  { intro k. subst s2. rewrite lv_set_lv_if by (auto; subst s1 s0; srw; auto).
    subst s1. rewrite !lv_set_lv_if by (auto; subst s0; srw; auto). rewrite Nat.eqb_refl. subst s0. srw.
    destruct (Nat.eqb_spec k l) as [->|N]; auto. apply oremove_all_oremove1. }
  split.
  - apply (assoc_del s s2 v l Ha).
    + intros w k. rewrite V2. destruct (Nat.eqb_spec w v) as [->|N].
      * rewrite in_remove1_iff by apply Hn. intuition congruence.
      * intuition congruence.
    + intros w k. rewrite L2. destruct (Nat.eqb_spec k l) as [->|N].
      * rewrite in_oremove_all. split; intros [H1 H2]; (split; [exact H1|]).
        -- intros [-> _]. now apply H2.
        -- intros [= ->]. apply H2. auto.
      * intuition congruence.
  - intro w. rewrite V2. destruct (Nat.eqb_spec w v) as [->|N]; auto. apply NoDup_remove1; auto.
Qed.

(* --- end assignment --- *)
Lemma r_l_set_end_inv s l idx new : wf s -> l < next s -> idx <= 1 -> (forall v, new = Some v -> v < next s) ->
  (forall v, In (Some v) (lv s l) -> v < next s) ->
  link_inv s -> link_inv (res_state (r_l_set_end s l idx new)).
Proof.
  intros W Hl Hidx Hnew Hends [Ha Hn]. unfold r_l_set_end.
  destruct (lv1 s l) as [e1|] eqn:E1; [|split; auto]. destruct (lv2 s l) as [e2|] eqn:E2; [|split; auto].
  set (old := if Nat.eqb idx 0 then e1 else e2).
  set (X := lv s l) in *.
  assert (Hold : nth_error X idx = Some old).
  { unfold lv1, lv2 in *. subst old. destruct idx as [|[|?]]; cbn; auto; lia. }
  assert (Hlen : idx < length X) by (apply nth_error_Some; congruence).
  set (s1 := set_lv s l (set idx new X)).
  assert (W1 : wf s1) by (subst s1; auto with st).
  assert (L1 : forall k, lv s1 k = if Nat.eqb k l then set idx new X else lv s k).
  { intro k. subst s1. now apply lv_set_lv_if. }
  assert (V1 : forall w, vl s1 w = vl s w) by (intro; subst s1; srw; reflexivity).
  cbn [res_state].
  (* the detach step *)
  set (s2 := match old with
             | Some ov => if memo (Some ov) (lv s1 l) then s1 else r_v_remove_from_link s1 ov l
             | None => s1 end).
  assert (S2 : wf s2 /\ next s2 = next s /\ (forall k, lv s2 k = lv s1 k) /\
               exists D : bool, (D = true -> exists ov, old = Some ov /\ ~ In (Some ov) (set idx new X)) /\
                 (D = false -> forall ov, old = Some ov -> In (Some ov) (set idx new X)) /\
                 forall w, vl s2 w = if D && oeqb (Some w) old then remove1 l (vl s w) else vl s w).
  { subst s2. destruct old as [ov|] eqn:Eo.
    2:{ split; [auto|split; [auto|split; [auto|]]]. exists false. split; [discriminate|split; [discriminate|]]. intro w. cbn. apply V1. }
    rewrite L1, Nat.eqb_refl.
    destruct (memo (Some ov) (set idx new X)) eqn:Em.
    { split; [auto|split; [auto|split; [auto|]]]. exists false. split; [discriminate|split].
      - intros _ ov' [= <-]. now apply memo_In.
      - intro w. cbn. apply V1. }
    apply memo_nIn in Em.
    assert (Hov : ov < next s) by (apply Hends; eapply nth_error_In; eauto).
    assert (Hin : In l (vl s ov)) by (apply Ha; eapply nth_error_In; eauto).
    unfold r_v_remove_from_link. rewrite V1.
    assert (memn l (vl s ov) = true) as -> by now apply memn_In.
    rewrite lv_set_vl, L1, Nat.eqb_refl.
    assert (memo (Some ov) (set idx new X) = false) as -> by now apply memo_nIn.
    split; [srw; auto with st|split; [srw; auto|split; [intro; srw; reflexivity|]]].
    exists true. split; [|split; [discriminate|]].
    - intros _. exists ov. auto.
    - intro w. srw. rewrite vl_set_vl_if by (auto; subst s1; srw; auto). rewrite V1. cbn [andb oeqb].
      rewrite Nat.eqb_sym. destruct (Nat.eqb_spec ov w) as [->|N]; auto. }
  destruct S2 as (W2 & N2 & L2 & D & HD1 & HD0 & V2).
  (* the attach step *)
  set (s3 := match new with
             | Some nv => if memn l (vl s2 nv) then s2 else r_v_add_to_link s2 nv l
             | None => s2 end).
  apply (link_inv_ext s3); [intro; srw; reflexivity | intro; srw; reflexivity|].
  assert (S3 : (forall k, lv s3 k = lv s1 k) /\
               exists E : bool, (E = true -> exists nv, new = Some nv /\ ~ In l (vl s2 nv)) /\
                 (E = false -> forall nv, new = Some nv -> In l (vl s2 nv)) /\
                 forall w, vl s3 w = if E && oeqb (Some w) new then vl s2 w ++ [l] else vl s2 w).
  { subst s3. destruct new as [nv|] eqn:En.
    2:{ split; auto. exists false. split; [discriminate|split; [discriminate|reflexivity]]. }
    destruct (memn l (vl s2 nv)) eqn:Em.
    { split; auto. exists false. split; [discriminate|split; [|reflexivity]]. intros _ nv' [= <-]. now apply memn_In. }
    apply memn_nIn in Em. assert (Hnv : nv < next s) by now apply Hnew.
    unfold r_v_add_to_link. assert (memn l (vl s2 nv) = false) as -> by now apply memn_nIn.
    rewrite lv_set_vl, L2, L1, Nat.eqb_refl.
    assert (memo (Some nv) (set idx (Some nv) X) = true) as -> by (apply memo_In; now apply in_set_new).
    split; [intro; srw; apply L2|].
    exists true. split; [|split; [discriminate|]].
    - intros _. exists nv. auto.
    - intro w. srw. rewrite vl_set_vl_if by (auto; rewrite N2; auto). cbn [andb oeqb].
      destruct (Nat.eqb_spec w nv) as [->|N]; auto. }
  destruct S3 as (L3 & E & HE1 & HE0 & V3).
  split.
  - intros w k. rewrite L3, L1. destruct (Nat.eqb_spec k l) as [->|Nk].
    + (* the link itself *)
      split.
      * intro Hin. rewrite V3 in Hin.
        destruct (E && oeqb (Some w) new) eqn:EE.
        { apply andb_true_iff in EE. destruct EE as [-> EE]. apply oeqb_eq in EE. rewrite <- EE. now apply in_set_new. }
        rewrite V2 in Hin. destruct (D && oeqb (Some w) old) eqn:DD.
        { exfalso. eapply remove1_notin; [apply Hn|]. exact Hin. }
        apply Ha in Hin. fold X in Hin.
        destruct (oeqb (Some w) old) eqn:Eo.
        -- apply oeqb_eq in Eo. rewrite andb_true_r in DD. apply (HD0 DD w). auto.
        -- apply in_set_keep; auto. rewrite Hold. intros [= Heq]. apply oeqb_neq in Eo. congruence.
      * intro Hin. pose proof Hin as Hin0. rewrite V3.
        assert (In l (vl s2 w) \/ (E = true /\ Some w = new)) as [H2|[HE Hw]].
        { apply in_set_cases in Hin. destruct Hin as [Hw|Hx].
          - destruct E eqn:EE; [right; auto|]. left. apply (HE0 eq_refl). auto.
          - left. rewrite V2. destruct (D && oeqb (Some w) old) eqn:DD.
            + apply andb_true_iff in DD. destruct DD as [-> DD]. apply oeqb_eq in DD.
              destruct (HD1 eq_refl) as (ov & Hov & Hnot). exfalso. apply Hnot. rewrite <- Hov, <- DD. exact Hin0.
            + apply Ha. exact Hx. }
        -- destruct (E && oeqb (Some w) new); [apply in_or_app; now left|exact H2].
        -- subst E. rewrite <- Hw, oeqb_refl. cbn. apply in_or_app. right. now left.
    + (* other links: membership of k in any vl list is untouched *)
      rewrite <- (Ha w k). rewrite V3, V2.
      destruct (E && oeqb (Some w) new); destruct (D && oeqb (Some w) old);
        rewrite ?in_app_iff; cbn; split; intro H;
        repeat match goal with
        | H : _ \/ _ |- _ => destruct H as [H|H]
        | H : In _ (remove1 _ _) |- _ => apply in_remove1 in H
        end; auto; try congruence; try tauto.
      all: try (left; apply in_remove1_neq; auto; congruence).
      all: try (apply in_remove1_neq; auto; congruence).
  - intro w. rewrite V3.
    assert (N2w : NoDup (vl s2 w)).
    { rewrite V2. destruct (D && oeqb (Some w) old); auto. apply NoDup_remove1; auto. }
    destruct (E && oeqb (Some w) new) eqn:EE; auto.
    apply andb_true_iff in EE. destruct EE as [-> EE]. apply oeqb_eq in EE.
    destruct (HE1 eq_refl) as (nv & Hnv & Hnot). apply NoDup_app_snoc; auto. congruence.
Qed.
