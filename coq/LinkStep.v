(* LinkStep.v — the association invariant (C01: v lists l  <->  l names v, no duplicate link in a
   vertex) lifted from the five reference mutators (LinkProofs.v) to EVERY operation of `step`,
   hence to every reachable state; plus two by-products of the same case analysis:
   a call that raised (other than by fuel exhaustion) left every link list as it was, and the link
   operations never run out of fuel.  Proof file: no axioms, stdlib only. *)
From EG Require Import Base Lemmas Lemmas2 State StateLemmas Nbrs Struct Footprint StateRw Ref LinkProofs.

(* ---------- 1. ids mentioned in link lists are allocated ---------- *)
Lemma link_inv_valid s v l : wf s -> link_inv s -> In (Some v) (lv s l) -> v < next s /\ l < next s.
Proof.
  intros W [Ha Hn] H. split.
  - destruct (Nat.lt_ge_cases v (next s)) as [Hlt|Hge]; auto.
    apply Ha in H. rewrite vl_outside in H by auto. destruct H.
  - destruct (Nat.lt_ge_cases l (next s)) as [Hlt|Hge]; auto.
    rewrite lv_outside in H by auto. destruct H.
Qed.
Lemma link_inv_valid' s v l : wf s -> link_inv s -> In l (vl s v) -> v < next s /\ l < next s.
Proof. intros W I H. apply link_inv_valid; auto. now apply (proj1 I). Qed.

(* ---------- 2. allocation ---------- *)
Lemma vl_alloc_all s k w : wf s -> vl (alloc k s) w = vl s w.
Proof.
  intro W. destruct (Nat.lt_ge_cases w (next s)) as [Hlt|Hge]; [now apply vl_alloc_old|].
  rewrite (vl_outside s w) by auto.
  destruct (Nat.eq_dec w (next s)) as [->|N]; [now apply vl_alloc_new|].
  apply vl_outside; [auto with st|]. rewrite next_alloc. lia.
Qed.
Lemma lv_alloc_all s k w : wf s -> lv (alloc k s) w = lv s w.
Proof.
  intro W. destruct (Nat.lt_ge_cases w (next s)) as [Hlt|Hge]; [now apply lv_alloc_old|].
  rewrite (lv_outside s w) by auto.
  destruct (Nat.eq_dec w (next s)) as [->|N]; [now apply lv_alloc_new|].
  apply lv_outside; [auto with st|]. rewrite next_alloc. lia.
Qed.
Lemma link_inv_alloc s k : wf s -> link_inv s -> link_inv (alloc k s).
Proof. intros W I. apply (link_inv_ext s); auto; intro; [now apply vl_alloc_all | now apply lv_alloc_all]. Qed.

(* states with the same link tables *)
Definition same_links (s0 s' : state) : Prop := vlinks s' = vlinks s0 /\ lverts s' = lverts s0.
Lemma same_links_inv s0 s' : same_links s0 s' -> link_inv s0 -> link_inv s'.
Proof. intros [H1 H2]. apply link_inv_ext; intro; unfold vl, lv; congruence. Qed.

(* ---------- 3a. the fuelled link methods at FUEL: total, and they keep wf / next / link_inv ---------- *)
Definition good (s0 s' : state) : Prop := wf s' /\ link_inv s' /\ next s' = next s0.
Lemma good_refl s : wf s -> link_inv s -> good s s.
Proof. unfold good; auto. Qed.
Lemma good_trans s0 s1 s2 : good s0 s1 -> good s1 s2 -> good s0 s2.
Proof. unfold good. intros (_ & _ & N1) (W2 & I2 & N2). split; [exact W2|split; [exact I2|congruence]]. Qed.

Lemma next_keep_vl n s v x : next s = n -> next (set_vl s v x) = n. Proof. auto. Qed.
Lemma next_keep_lv n s v x : next s = n -> next (set_lv s v x) = n. Proof. auto. Qed.
Lemma next_keep_ca n s v x : next s = n -> next (set_ca s v x) = n. Proof. auto. Qed.

Lemma vadd_ok s v l : wf s -> link_inv s -> v < next s -> l < next s ->
  exists s', v_add_to_link FUEL s v l = Ok s' /\ good s s'.
Proof.
  intros W I Hv Hl.
  assert (E : v_add_to_link FUEL s v l = Ok (r_v_add_to_link s v l)).
  { change FUEL with (S (S 6)). now apply v_add_to_link_ref. }
  exists (r_v_add_to_link s v l). split; [exact E|].
  pose proof (P_v_add_to_link wf wf_set_vl wf_set_lv wf_set_ca FUEL s v l W) as W'.
  pose proof (P_v_add_to_link (fun s' => next s' = next s) (next_keep_vl _) (next_keep_lv _) (next_keep_ca _)
                FUEL s v l eq_refl) as N'.
  rewrite E in W', N'. cbn [res_state] in W', N'.
  split; [exact W'|split; [now apply r_v_add_to_link_inv|exact N']].
Qed.

Lemma ladd_ok s l ov : wf s -> link_inv s -> l < next s -> (forall v, ov = Some v -> v < next s) ->
  exists s', l_add_vertex FUEL s l ov = Ok s' /\ good s s'.
Proof.
  intros W I Hl Hv.
  assert (E : l_add_vertex FUEL s l ov = Ok (r_l_add_vertex s l ov)).
  { change FUEL with (S (S 6)). now apply l_add_vertex_ref. }
  exists (r_l_add_vertex s l ov). split; [exact E|].
  pose proof (P_l_add_vertex wf wf_set_vl wf_set_lv wf_set_ca FUEL s l ov W) as W'.
  pose proof (P_l_add_vertex (fun s' => next s' = next s) (next_keep_vl _) (next_keep_lv _) (next_keep_ca _)
                FUEL s l ov eq_refl) as N'.
  rewrite E in W', N'. cbn [res_state] in W', N'.
  split; [exact W'|split; [now apply r_l_add_vertex_inv|exact N']].
Qed.

Lemma vrem_ok s v l : wf s -> link_inv s -> v < next s -> l < next s ->
  exists s', v_remove_from_link FUEL s v l = Ok s' /\ good s s'.
Proof.
  intros W I Hv Hl.
  assert (E : v_remove_from_link FUEL s v l = Ok (r_v_remove_from_link s v l)).
  { change FUEL with (S (S (S 5))). apply v_remove_from_link_ref; auto. apply (proj2 I). }
  exists (r_v_remove_from_link s v l). split; [exact E|].
  pose proof (P_v_remove_from_link wf wf_set_vl wf_set_lv wf_set_ca FUEL s v l W) as W'.
  pose proof (P_v_remove_from_link (fun s' => next s' = next s) (next_keep_vl _) (next_keep_lv _) (next_keep_ca _)
                FUEL s v l eq_refl) as N'.
  rewrite E in W', N'. cbn [res_state] in W', N'.
  split; [exact W'|split; [now apply r_v_remove_from_link_inv|exact N']].
Qed.

Lemma lunl_ok s l ov : wf s -> link_inv s -> l < next s -> (forall v, ov = Some v -> v < next s) ->
  exists s', l_unlink_from FUEL s l ov = Ok s' /\ good s s'.
Proof.
  intros W I Hl Hv.
  assert (E : l_unlink_from FUEL s l ov = Ok (r_l_unlink_from s l ov)).
  { change FUEL with (S (S (S 5))). now apply l_unlink_from_ref. }
  exists (r_l_unlink_from s l ov). split; [exact E|].
  pose proof (P_l_unlink_from wf wf_set_vl wf_set_lv wf_set_ca FUEL s l ov W) as W'.
  pose proof (P_l_unlink_from (fun s' => next s' = next s) (next_keep_vl _) (next_keep_lv _) (next_keep_ca _)
                FUEL s l ov eq_refl) as N'.
  rewrite E in W', N'. cbn [res_state] in W', N'.
  split; [exact W'|split; [now apply r_l_unlink_from_inv|exact N']].
Qed.

(* end assignment: either total as above, or IndexError with the state untouched *)
Lemma setend_ok s l idx new : wf s -> link_inv s -> l < next s -> idx <= 1 -> (forall v, new = Some v -> v < next s) ->
  (exists s', l_set_end FUEL s l idx new = Ok s' /\ good s s') \/ l_set_end FUEL s l idx new = Raise IndexError s.
Proof.
  intros W I Hl Hidx Hv.
  assert (Hends : forall v, In (Some v) (lv s l) -> v < next s).
  { intros v H. now apply (link_inv_valid s v l). }
  assert (E : l_set_end FUEL s l idx new = r_l_set_end s l idx new).
  { change FUEL with (S (S (S 5))). apply l_set_end_ref; auto. apply (proj2 I). }
  pose proof (P_l_set_end wf wf_set_vl wf_set_lv wf_set_ca FUEL s l idx new W) as W'.
  pose proof (P_l_set_end (fun s' => next s' = next s) (next_keep_vl _) (next_keep_lv _) (next_keep_ca _)
                FUEL s l idx new eq_refl) as N'.
  pose proof (r_l_set_end_inv s l idx new W Hl Hidx Hv Hends I) as I'.
  rewrite E in *.
  assert (Sh : (exists s', r_l_set_end s l idx new = Ok s') \/ r_l_set_end s l idx new = Raise IndexError s).
  { unfold r_l_set_end. destruct (lv1 s l); [destruct (lv2 s l)|]; eauto. }
  destruct Sh as [[s' Es]|Er]; [left|right; exact Er].
  exists s'. rewrite Es in *. cbn [res_state] in *. split; [reflexivity|]. split; [exact W'|split; [exact I'|exact N']].
Qed.

(* sequencing *)
Lemma seq_res_ok (f : state -> nat -> res) s0 xs :
  (forall s x, In x xs -> good s0 s -> exists s', f s x = Ok s' /\ good s0 s') ->
  forall s, good s0 s -> exists s', seq_res f xs s = Ok s' /\ good s0 s'.
Proof.
  induction xs as [|x r IH]; intros Hf s G; cbn [seq_res]; [eauto|].
  destruct (Hf s x (or_introl eq_refl) G) as (s1 & E & G1). rewrite E. cbn [bind].
  apply IH; auto. intros s2 y Hy. apply Hf. now right.
Qed.

(* ---------- 3b. well-typedness gives allocated ids ---------- *)
Lemma isv_lt s i : isv s i = true -> i < next s.
Proof. unfold isv. intro H. apply andb_true_iff in H. now apply valid_lt. Qed.
Lemma isl_lt s i : isl s i = true -> i < next s.
Proof. unfold isl. intro H. apply andb_true_iff in H. now apply valid_lt. Qed.
Lemma oisv_lt s o : oisv s o = true -> forall v, o = Some v -> v < next s.
Proof. intros H v ->. now apply isv_lt. Qed.
Lemma forallb_isl_lt s ls : forallb (isl s) ls = true -> forall l, In l ls -> l < next s.
Proof. intros H l Hl. rewrite forallb_forall in H. apply isl_lt. auto. Qed.

(* ---------- 3c. find_links returns attached links ---------- *)
Lemma fl_loop_sub ffl s a b ds u f ls : forall acc r,
  fl_loop ffl s a b ds u f ls acc = FOk r -> forall x, In x r -> In x ls \/ In x acc.
Proof.
  induction ls as [|l ls IH]; intros acc r H x Hx; cbn [fl_loop] in H.
  - inversion H; subst; auto.
  - destruct (fl_link ffl s a b ds u f l); [| |discriminate].
    + destruct (IH _ _ H x Hx); [left; now right|auto].
    + destruct (IH _ _ H x Hx) as [H1|H1]; [left; now right|].
      destruct (memn l acc); auto. apply in_app_or in H1. destruct H1 as [H1|[<-|[]]]; auto. left; now left.
Qed.
Lemma find_links_sub ffl s a b ds u f r : find_links ffl s a b ds u f = FOk r -> forall x, In x r -> In x (vl s a).
Proof. unfold find_links. intros H x Hx. destruct (fl_loop_sub _ _ _ _ _ _ _ _ _ _ H x Hx) as [H1|[]]; auto. Qed.
Lemma fl_link_err ffl s a b ds u f l e :
  fl_link ffl s a b ds u f l = FRaise e -> e = IndexError \/ e = NotImplementedError.
Proof.
  unfold fl_link. destruct (other s l (Some a)) as [|o]; [intros [= <-]; auto|].
  destruct u; repeat match goal with |- context [if ?c then _ else _] => destruct c end;
    try discriminate; intros [= <-]; auto.
Qed.
Lemma fl_loop_err ffl s a b ds u f ls : forall acc e,
  fl_loop ffl s a b ds u f ls acc = FErr e -> e = IndexError \/ e = NotImplementedError.
Proof.
  induction ls as [|l ls IH]; intros acc e H; cbn [fl_loop] in H; [discriminate|].
  destruct (fl_link ffl s a b ds u f l) eqn:EL; eauto.
  inversion H; subst. eapply fl_link_err; eauto.
Qed.

(* ---------- 3d. shape of the link operations ---------- *)
Ltac wt_facts :=
  repeat match goal with H : (_ && _) = true |- _ => apply andb_true_iff in H; destruct H end;
  repeat match goal with
  | H : isl _ _ = true |- _ => apply isl_lt in H
  | H : isv _ _ = true |- _ => apply isv_lt in H
  | H : oisv _ _ = true |- _ => pose proof (oisv_lt _ _ H); clear H
  end.
Lemma seq_ores_ok (f : state -> option nat -> res) s0 xs :
  (forall s x, In x xs -> good s0 s -> exists s', f s x = Ok s' /\ good s0 s') ->
  forall s, good s0 s -> exists s', seq_ores f xs s = Ok s' /\ good s0 s'.
Proof.
  induction xs as [|x r IH]; intros Hf s G; cbn [seq_ores]; [eauto|].
  destruct (Hf s x (or_introl eq_refl) G) as (s1 & E & G1). rewrite E. cbn [bind].
  apply IH; auto. intros s2 y Hy. apply Hf. now right.
Qed.

Lemma new_edge_shape s k a b : wf s -> link_inv s ->
  (forall i, a = Some i -> i < next s) -> (forall i, b = Some i -> i < next s) ->
  new_edge s k a b = (Ok s, Raised TypeError) \/
  exists s', new_edge s k a b = (Ok s', Ret (VId (next s))) /\ wf s' /\ link_inv s'.
Proof.
  intros W I Ha Hb. unfold new_edge. destruct (_ || _); [left; reflexivity|right].
  set (s0 := alloc k s).
  assert (G0 : good s0 s0) by (apply good_refl; subst s0; [auto with st|now apply link_inv_alloc]).
  assert (N0 : next s0 = S (next s)) by (subst s0; apply next_alloc).
  destruct (seq_ores_ok (fun s1 ov => l_add_vertex FUEL s1 (next s) ov) s0 [a; b]) with (s := s0) as (s' & E & G); auto.
  { intros s1 x Hx (W1 & I1 & N1).
    destruct (ladd_ok s1 (next s) x W1 I1) as (s2 & E2 & G2).
    - lia.
    - intros v ->. destruct Hx as [Hx|[Hx|[]]]; [specialize (Ha v Hx)|specialize (Hb v Hx)]; lia.
    - exists s2. split; [exact E2|]. eapply good_trans; [|exact G2]. split; [exact W1|split; [exact I1|exact N1]]. }
  exists s'. rewrite E. split; [reflexivity|]. split; apply G.
Qed.

Definition link_op (o : op) : bool :=
  match o with
  | NewEdge _ _ _ | SetV1 _ _ | SetV2 _ _ | VAddToLink _ _ | VRemoveFromLink _ _
  | LAddVertex _ _ | LUnlinkFrom _ _ | LinkFromTo _ _ _ _ | Unlink _ _ _ => true
  | _ => false
  end.

(* a link operation either returns normally in a wf state satisfying the invariant, or raises
   (never by fuel exhaustion) with the state exactly as it was *)
Lemma link_step_shape s o : wf s -> link_inv s -> link_op o = true ->
  (exists s' v, step s o = (s', Ret v) /\ wf s' /\ link_inv s') \/
  (exists e, step s o = (s, Raised e) /\ e <> OutOfFuel).
Proof.
  intros W I LO. unfold step. destruct (well_typed s o) eqn:WT; cbn [negb];
    [|right; exists IllTyped; split; [reflexivity|discriminate]].
  destruct o; try discriminate LO; unfold well_typed in WT; cbn [negb]; wt_facts.
  - (* NewEdge *)
    destruct (new_edge_shape s k a b W I) as [E|(s' & E & W' & I')].
    + intros i ->. now apply valid_lt.
    + intros i ->. now apply valid_lt.
    + right. exists TypeError. rewrite E. split; [reflexivity|discriminate].
    + left. exists s', (VId (next s)). rewrite E. auto.
  - (* SetV1 *)
    destruct (setend_ok s l 0 ov W I) as [(s' & E & W' & I' & _)|E]; auto.
    + left. exists s', VNone. rewrite E. auto.
    + right. exists IndexError. rewrite E. split; [reflexivity|discriminate].
  - (* SetV2 *)
    destruct (setend_ok s l 1 ov W I) as [(s' & E & W' & I' & _)|E]; auto.
    + left. exists s', VNone. rewrite E. auto.
    + right. exists IndexError. rewrite E. split; [reflexivity|discriminate].
  - destruct (vadd_ok s v l W I) as (s' & E & W' & I' & _); auto.
    left. exists s', VNone. rewrite E. auto.
  - destruct (vrem_ok s v l W I) as (s' & E & W' & I' & _); auto.
    left. exists s', VNone. rewrite E. auto.
  - destruct (ladd_ok s l ov W I) as (s' & E & W' & I' & _); auto.
    left. exists s', VNone. rewrite E. auto.
  - destruct (lunl_ok s l ov W I) as (s' & E & W' & I' & _); auto.
    left. exists s', VNone. rewrite E. auto.
  - (* LinkFromTo *)
    destruct (if dontdup then first_joining s a b (vl s a) else Some None) as [[l|]|].
    + left. exists s, (VId l). auto.
    + destruct (new_edge_shape s k (Some a) (Some b) W I) as [E|(s' & E & W' & I')].
      * intros i [= <-]. auto.
      * intros i [= <-]. auto.
      * right. exists TypeError. rewrite E. split; [reflexivity|discriminate].
      * left. exists s', (VId (next s)). rewrite E. auto.
    + right. exists IndexError. split; [reflexivity|discriminate].
  - (* Unlink *)
    destruct (find_links _ s a b false UErr None) as [links|e] eqn:EF.
    2:{ right. exists e. split; [reflexivity|].
        unfold find_links in EF. apply fl_loop_err in EF. destruct EF; subst; discriminate. }
    assert (Hl : forall l, In l links -> l < next s).
    { intros l Hl. eapply find_links_sub in Hl; [|exact EF]. now apply (link_inv_valid' s a l). }
    destruct (seq_res_ok (fun s1 l => bind (l_unlink_from FUEL s1 l (Some a))
                                       (fun s' => l_unlink_from FUEL s' l (Some b))) s links) with (s := s)
      as (s' & E & W' & I' & _); [|now apply good_refl|].
    { intros s1 l Hin (W1 & I1 & N1). cbn beta.
      destruct (lunl_ok s1 l (Some a) W1 I1) as (s2 & E2 & W2 & I2 & N2).
      { rewrite N1; auto. } { intros v [= <-]. now rewrite N1. }
      rewrite E2. cbn [bind].
      destruct (lunl_ok s2 l (Some b) W2 I2) as (s3 & E3 & W3 & I3 & N3).
      { rewrite N2, N1; auto. } { intros v [= <-]. now rewrite N2, N1. }
      exists s3. split; [exact E3|]. split; [exact W3|split; [exact I3|congruence]]. }
    left. exists s', (if destroy then VNone else VSet links). rewrite E. auto.
Qed.

(* ---------- 3e. the other operations never write a link list (allocation appends an empty one) ---------- *)
Lemma fst_ok_or R V : fst (let '(r, out) := ok_or R V in (res_state r, out)) = res_state R.
Proof. destruct R; reflexivity. Qed.
Lemma snd_ok_or R V : snd (let '(r, out) := ok_or R V in (res_state r, out)) =
  match R with Ok _ => Ret V | Raise e _ => Raised e end.
Proof. destruct R; reflexivity. Qed.

Definition only_oof (r : res) : Prop := match r with Ok _ => True | Raise e _ => e = OutOfFuel end.
Lemma only_oof_bind r k : only_oof r -> (forall s, only_oof (k s)) -> only_oof (bind r k).
Proof. destruct r; cbn; auto. Qed.
Lemma only_oof_uadd fuel : forall s,
  (forall u v, only_oof (u_add_vertex fuel s u v)) /\ (forall v u, only_oof (v_add_to_universe fuel s v u)).
Proof.
  induction fuel as [|f IH]; intros s; split; intros; cbn; auto.
  - destruct (memn _ _); cbn; auto. destruct (memn _ _); cbn; auto. apply IH.
  - destruct (memn u (vu s v)); cbn; (destruct (memn _ _); cbn; auto; apply IH).
Qed.
Lemma only_oof_laws fuel : forall s,
  (forall u oL, only_oof (u_set_laws fuel s u oL)) /\ (forall L ou, only_oof (l_set_applies fuel s L ou)).
Proof.
  induction fuel as [|f IH]; intros s; split; intros; cbn; auto.
  - destruct (oeqb _ _); cbn; auto. apply only_oof_bind.
    + destruct (ul s u); cbn; auto. destruct (oeqb _ _); cbn; auto. apply IH.
    + intros s2. destruct oL; cbn; auto. apply IH.
  - destruct (oeqb _ _); cbn; auto. apply only_oof_bind.
    + destruct (la s L); cbn; auto. destruct (oeqb _ _); cbn; auto. apply IH.
    + intros s2. destruct (la s2 L); cbn; auto. apply IH.
Qed.
Lemma only_oof_seq_res f xs : (forall s x, only_oof (f s x)) -> forall s, only_oof (seq_res f xs s).
Proof. intro Hf. induction xs as [|x r IH]; intro s; cbn [seq_res]; [exact I|]. apply only_oof_bind; auto. Qed.
Lemma only_oof_raised R V e : only_oof R ->
  snd (let '(r, out) := ok_or R V in (res_state r, out)) = Raised e -> e = OutOfFuel.
Proof. rewrite snd_ok_or. destruct R; cbn; [discriminate|]. intros -> [= <-]. reflexivity. Qed.

Lemma same_links_refl s : same_links s s. Proof. split; reflexivity. Qed.
Lemma sl_vu s0 s v x : same_links s0 s -> same_links s0 (set_vu s v x). Proof. auto. Qed.
Lemma sl_uv s0 s v x : same_links s0 s -> same_links s0 (set_uv s v x). Proof. auto. Qed.
Lemma sl_ul s0 s v x : same_links s0 s -> same_links s0 (set_ul s v x). Proof. auto. Qed.
Lemma sl_la s0 s v x : same_links s0 s -> same_links s0 (set_la s v x). Proof. auto. Qed.

Lemma uni_tail s1 L u vs : link_inv s1 ->
  let R := bind (l_set_applies FUEL s1 L (Some u))
                (fun s2 => seq_res (fun s v => u_add_vertex FUEL s u v) vs s2) in
  link_inv (res_state R) /\ only_oof R.
Proof.
  intros I1 R. split.
  - apply (same_links_inv s1); [|exact I1].
    subst R. apply P_bind; [apply P_l_set_applies; auto using sl_ul, sl_la, same_links_refl|].
    intros s2 H2. apply P_seq_res; [|exact H2]. intros s3 x H3.
    apply P_u_add_vertex; auto using sl_vu, sl_uv.
  - subst R. apply only_oof_bind; [apply only_oof_laws|]. intro s2.
    apply only_oof_seq_res. intros. apply only_oof_uadd.
Qed.

Lemma other_step_shape s o : wf s -> link_inv s -> link_op o = false ->
  link_inv (fst (step s o)) /\
  (forall e, snd (step s o) = Raised e -> e <> OutOfFuel -> same_links s (fst (step s o))).
Proof.
  intros W I LO. unfold step. destruct (well_typed s o) eqn:WT; cbn [negb];
    [|split; [exact I|intros; apply same_links_refl]].
  destruct o; try discriminate LO; unfold well_typed in WT; cbn [negb]; wt_facts.
  - (* NewVertex *)
    set (v := next s). set (s0 := set_vu (alloc (if sub then KVertexSub else KVertex) s) v (dedup us)).
    assert (W0 : wf s0) by (subst s0; auto with st).
    assert (N0 : next s0 = S (next s)) by (subst s0; srw; apply next_alloc).
    assert (I0 : link_inv s0).
    { apply (same_links_inv (alloc (if sub then KVertexSub else KVertex) s)); [split; reflexivity|].
      now apply link_inv_alloc. }
    destruct (seq_res_ok (fun s1 l => v_add_to_link FUEL s1 v l) s0 ls) with (s := s0) as (s1 & E & W1 & I1 & N1);
      [|now apply good_refl|].
    { intros s1 l Hin (W1 & I1 & N1). destruct (vadd_ok s1 v l W1 I1) as (s2 & E2 & W2 & I2 & N2).
      - subst v. lia.
      - pose proof (forallb_isl_lt _ _ H0 l Hin). lia.
      - exists s2. split; [exact E2|]. split; [exact W2|split; [exact I2|congruence]]. }
    rewrite E. cbn [bind]. rewrite fst_ok_or. split.
    + apply (same_links_inv s1); [|exact I1].
      apply P_seq_res; [|apply same_links_refl]. intros s2 u H2.
      apply P_u_add_vertex; auto using sl_vu, sl_uv.
    + intros e He Hne. exfalso. apply Hne. eapply only_oof_raised; [|exact He].
      apply only_oof_seq_res. intros. apply only_oof_uadd.
  - (* NewUniverse *)
    set (u := next s). set (s0 := alloc KUniverse s).
    assert (I0 : link_inv s0) by (subst s0; now apply link_inv_alloc).
    assert (W0 : wf s0) by (subst s0; auto with st).
    destruct oL as [L|]; cbn [negb]; rewrite fst_ok_or.
    + destruct (uni_tail (set_ul s0 u (Some L)) L u vs) as [HI HO].
      { apply (same_links_inv s0); [split; reflexivity|exact I0]. }
      split; [exact HI|]. intros e He Hne. exfalso. apply Hne. eapply only_oof_raised; [exact HO|exact He].
    + destruct (uni_tail (set_ul (set_la (alloc KLaws s0) (next s0) (Some u)) u (Some (next s0))) (next s0) u vs)
        as [HI HO].
      { apply (same_links_inv (alloc KLaws s0)); [split; reflexivity|now apply link_inv_alloc]. }
      split; [exact HI|]. intros e He Hne. exfalso. apply Hne. eapply only_oof_raised; [exact HO|exact He].
  - (* NewLaws *)
    cbn [fst snd res_state]. split; [|discriminate].
    apply (same_links_inv (alloc KLaws s)); [split; reflexivity|now apply link_inv_alloc].
  - rewrite fst_ok_or.
    assert (S' : same_links s (res_state (u_add_vertex FUEL s u v))).
    { apply P_u_add_vertex; auto using sl_vu, sl_uv, same_links_refl. }
    split; [now apply (same_links_inv s)|auto].
  - rewrite fst_ok_or.
    assert (S' : same_links s (res_state (u_remove_vertex FUEL s u v))).
    { apply P_u_remove_vertex; auto using sl_vu, sl_uv, same_links_refl. }
    split; [now apply (same_links_inv s)|auto].
  - rewrite fst_ok_or.
    assert (S' : same_links s (res_state (v_add_to_universe FUEL s v u))).
    { apply P_v_add_to_universe; auto using sl_vu, sl_uv, same_links_refl. }
    split; [now apply (same_links_inv s)|auto].
  - rewrite fst_ok_or.
    assert (S' : same_links s (res_state (v_remove_from_universe FUEL s v u))).
    { apply P_v_remove_from_universe; auto using sl_vu, sl_uv, same_links_refl. }
    split; [now apply (same_links_inv s)|auto].
  - rewrite fst_ok_or.
    assert (S' : same_links s (res_state (u_set_laws FUEL s u oL))).
    { apply P_u_set_laws; auto using sl_ul, sl_la, same_links_refl. }
    split; [now apply (same_links_inv s)|auto].
  - rewrite fst_ok_or.
    assert (S' : same_links s (res_state (l_set_applies FUEL s L ou))).
    { apply P_l_set_applies; auto using sl_ul, sl_la, same_links_refl. }
    split; [now apply (same_links_inv s)|auto].
  - cbn [fst snd res_state]. split; [|discriminate].
    apply (same_links_inv s); [split; reflexivity|exact I].
Qed.

(* ---------- 3. every operation preserves the invariant ---------- *)
Theorem link_inv_step s o : wf s -> link_inv s -> link_inv (fst (step s o)).
Proof.
  intros W I. destruct (link_op o) eqn:LO.
  - destruct (link_step_shape s o W I LO) as [(s' & v & E & _ & I')|(e & E & _)]; rewrite E; auto.
  - now apply other_step_shape.
Qed.

(* ---------- 4. every reachable state satisfies it ---------- *)
Lemma link_inv_empty : link_inv empty.
Proof.
  split.
  - intros v l. unfold vl, lv, empty, get; cbn. destruct v, l; cbn; tauto.
  - intro v. unfold vl, empty, get; cbn. destruct v; constructor.
Qed.
Lemma link_inv_run ops : forall s, wf s -> link_inv s -> link_inv (run ops s).
Proof.
  induction ops as [|o r IH]; cbn [run fold_left]; auto. intros s W I.
  apply IH; [now apply wf_step | now apply link_inv_step].
Qed.
Theorem link_inv_reachable : forall ops, link_inv (run ops empty).
Proof. intro ops. apply link_inv_run; [apply wf_empty | apply link_inv_empty]. Qed.

(* ---------- 5. a call that raised left every link list as it was; link operations have enough fuel ---------- *)
Theorem raising_step_changes_nothing_links s o e : wf s -> link_inv s ->
  snd (step s o) = Raised e -> e <> OutOfFuel ->
  vlinks (fst (step s o)) = vlinks s /\ lverts (fst (step s o)) = lverts s.
Proof.
  intros W I He Hne. destruct (link_op o) eqn:LO.
  - destruct (link_step_shape s o W I LO) as [(s' & v & E & _)|(e' & E & _)]; rewrite E in *; cbn [fst snd] in *.
    + discriminate.
    + auto.
  - destruct (other_step_shape s o W I LO) as [_ H]. exact (H e He Hne).
Qed.

(* stronger form for the link operations: the whole state is unchanged *)
Theorem raising_link_step_changes_nothing s o e : wf s -> link_inv s -> link_op o = true ->
  snd (step s o) = Raised e -> fst (step s o) = s.
Proof.
  intros W I LO He.
  destruct (link_step_shape s o W I LO) as [(s' & v & E & _)|(e' & E & _)]; rewrite E in *; cbn [fst snd] in *.
  - discriminate.
  - reflexivity.
Qed.

Theorem step_never_out_of_fuel s o : wf s -> link_inv s -> link_op o = true ->
  snd (step s o) <> Raised OutOfFuel.
Proof.
  intros W I LO.
  destruct (link_step_shape s o W I LO) as [(s' & v & E & _)|(e' & E & Hne)]; rewrite E; cbn [snd].
  - discriminate.
  - intros [= ->]. now apply Hne.
Qed.

Print Assumptions link_inv_step.
Print Assumptions raising_step_changes_nothing_links.
Print Assumptions step_never_out_of_fuel.
Print Assumptions link_inv_reachable.
