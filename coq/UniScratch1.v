From EG Require Import Base Lemmas State StateLemmas Nbrs Struct Footprint UniProofs.
Lemma fst_ok_or R V : fst (let '(r, out) := ok_or R V in (res_state r, out)) = res_state R.
Proof. destruct R; reflexivity. Qed.
Goal forall s o, wf s -> uni_inv s -> uni_inv (fst (step s o)).
Proof.
  intros s o W I. unfold step. destruct (well_typed s o) eqn:WT; cbn [negb]; [|exact I].
  destruct o; cbv beta iota zeta.
  all: rewrite ?fst_ok_or.
  Show 1. Show 2. Show 3. Show 4. Show 5. Show 11. Show 12.
Abort.
