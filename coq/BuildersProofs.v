(* BuildersProofs.v — the builders of Builders.v (builder/adjlist.py, adjmatrix.py, randgraph.py):
   properties C11 (load_adj_dict / load_adj_matrix) and C20 (randgraph).

   0. STEP EFFECTS of the four calls the builders make, each with its full frame:
        link_from_to_false_is_new_edge   LinkFromTo a k b false steps exactly like NewEdge k (Some a) (Some b)
        link_effect        explicit.link_from_to: new id next s, lv = [Some a; Some b], appended to vl a / vl b
                           (once for a self-loop), kind k, universes untouched, Inv kept
        vadd_effect        v.add_to_universe(u): appends v to uv u and u to vu v iff not yet a member; links,
                           kinds, next untouched, Inv kept
        new_universe_step / new_universe_effect   Universe(): ids next s (KUniverse) and next s + 1 (its
                           default KLaws), every vl / lv / vu / uv read unchanged
        new_vertex_step / new_vertex_effect       Vertex(): id next s (KVertex), all reads unchanged
   1. GENERAL LEMMA  run_items: for ANY list of `AddU v` / `Lnk a b` items over valid vertices,
        run (map (item_op u k) items) s satisfies `built`: uv u = old ++ dedup_acc old (vertices added),
        vu, the i-th Lnk is link next s + i with ends [Some a; Some b] and class k, old lv / kd kept,
        vl w = old ++ new_links (next s) pairs w (ids of the pairs having w as an end, in creation order).
      run_loader: the same after `NewUniverse [] None` (predicate `loaded`); loaded_vl_frame: the vl
        extension is exactly {new link ids naming w}, duplicate-free and strictly increasing.
   A. load_adj_dict (hypotheses: Inv s, adj_ok s k adj = true; distinct keys are NOT needed for A1-A4)
        lad_loaded (master), lad_returns_new_universe (A1), lad_members (A2: uv u = dedup of the
        vertices named, first-mention order), lad_links (A3: links u+2+i, ends / class / next; u+1 is the
        law set), lad_frame + lad_frame_vl_closed (A4), lad_ill_typed;
        A5 lad_neighbors_fwd (closed form), lad_neighbors_readback (distinct keys, directed class, vertex
        unlinked before: neighbors(v, FORWARD) = its adjacency list, element for element),
        lad_neighbors_count (the count_occ form).
   B. load_adj_matrix
        lam_bad_shape_raises (B1: ValueError, state untouched)
        lam_loaded / lam_effect (B2: members = dedup side, one link per true cell with ends
        (nth i side, nth j side) and class k, frame as A4); true_cells_In (exactly the true cells),
        true_cells_row_major (= the n x n grid filtered, row by row, left to right).
   C. randgraph, under good_draws (the randint / sample contract)
        rg_k_le_count (C1), randgraph_returns / randgraph_never_raises (C2), randgraph_members (C3),
        randgraph_links_inside + randgraph_links_exact + randgraph_new_kinds (C4), randgraph_ensurelink (C5),
        randgraph_frame (old objects untouched), randgraph_deterministic / randgraph_scale_ext and the
        vm_compute examples good_draws1/4, randgraph_count1/4 (C6), randgraph_pinned_would_raise (C7).

   Proof file: no axioms, stdlib only. *)
From EG Require Import Base Lemmas Lemmas2 State StateLemmas Nbrs Struct Footprint StateRw Ref RefStep.
From EG Require LinkProofs LawsProofs UniProofs LinkStep.
From EG Require Import RefProofs Builders.
From Coq Require Import Permutation.

(* ====================================================================================== *)
(* 0. step effects of the four calls the builders make                                    *)
(* ====================================================================================== *)

(* every read of vunis / uverts survives a link-family edit or an allocation *)
Definition same_uni (s0 s' : state) : Prop :=
  wf s' /\ (forall w, vu s' w = vu s0 w) /\ (forall w, uv s' w = uv s0 w).

Lemma new_edge_keeps_uni s k a b : wf s -> same_uni s (res_state (fst (new_edge s k a b))).
Proof.
  intro W. apply (P_new_edge (same_uni s)).
  - intros t v x (A & B & C). split; [auto with st|split; intro; srw; auto].
  - intros t v x (A & B & C). split; [auto with st|split; intro; srw; auto].
  - intros t v x (A & B & C). split; [auto with st|split; intro; srw; auto].
  - intros t k' (A & B & C). split; [auto with st|split; intro].
    + rewrite UniProofs.vu_alloc_all by exact A. apply B.
    + rewrite UniProofs.uv_alloc_all by exact A. apply C.
  - split; [exact W|split; reflexivity].
Qed.

Lemma link_from_to_false_is_new_edge s a k b : well_typed s (LinkFromTo a k b false) = true ->
  step s (LinkFromTo a k b false) = step s (NewEdge k (Some a) (Some b)).
Proof.
  intro WT. unfold step. rewrite WT. cbn [negb].
  assert (WT' : well_typed s (NewEdge k (Some a) (Some b)) = true).
  { cbn [well_typed] in *. apply andb_true_iff in WT as [WT Hk]. apply andb_true_iff in WT as [Ha Hb].
    unfold isv in Ha, Hb. apply andb_true_iff in Ha as [Ha _]. apply andb_true_iff in Hb as [Hb _].
    now rewrite Hk, Ha, Hb. }
  rewrite WT'. reflexivity.
Qed.

Lemma wt_link_from_to s a k b d : isv s a = true -> isv s b = true -> is_link k = true ->
  well_typed s (LinkFromTo a k b d) = true.
Proof. intros Ha Hb Hk. cbn [well_typed]. now rewrite Ha, Hb, Hk. Qed.
Lemma wt_new_edge s a k b : isv s a = true -> isv s b = true -> is_link k = true ->
  well_typed s (NewEdge k (Some a) (Some b)) = true.
Proof.
  intros Ha Hb Hk. cbn [well_typed]. unfold isv in Ha, Hb.
  apply andb_true_iff in Ha as [Ha _]. apply andb_true_iff in Hb as [Hb _]. now rewrite Ha, Hb, Hk.
Qed.

(* explicit.link_from_to(a, k, b): the full effect, universe tables included *)
Lemma link_effect s k a b : Inv s -> isv s a = true -> isv s b = true -> is_link k = true ->
  let s' := fst (step s (LinkFromTo a k b false)) in
  Inv s' /\ next s' = S (next s) /\ kd s' (next s) = k /\ (forall i, i < next s -> kd s' i = kd s i) /\
  lv s' (next s) = [Some a; Some b] /\ (forall l, l <> next s -> lv s' l = lv s l) /\
  (forall w, vl s' w = vl s w ++ (if Nat.eqb a w || Nat.eqb b w then [next s] else [])) /\
  (forall w, vu s' w = vu s w) /\ (forall w, uv s' w = uv s w).
Proof.
  intros HI Ha Hb Hk s'.
  assert (WT : well_typed s (LinkFromTo a k b false) = true) by now apply wt_link_from_to.
  assert (WT' : well_typed s (NewEdge k (Some a) (Some b)) = true) by now apply wt_new_edge.
  assert (HI' : Inv s') by (apply Inv_step; [exact HI|discriminate]).
  subst s'. rewrite link_from_to_false_is_new_edge in * by exact WT.
  destruct (new_edge_effect s k a b HI WT' Ha Hb) as (_ & N & K & Ko & L & Va & Vb & Vo & Lo).
  split; [exact HI'|]. split; [exact N|]. split; [exact K|]. split; [exact Ko|]. split; [exact L|].
  split; [exact Lo|]. split.
  { intro w. destruct (Nat.eqb_spec a w) as [<-|Na]; cbn [orb]; [exact Va|].
    destruct (Nat.eqb_spec b w) as [<-|Nb]; [exact Vb|]. rewrite app_nil_r. apply Vo; congruence. }
  pose proof HI as (W & _).
  assert (E : fst (step s (NewEdge k (Some a) (Some b))) = res_state (fst (new_edge s k (Some a) (Some b)))).
  { unfold step. rewrite WT'. cbn [negb]. apply UniProofs.fst_pair_let. }
  rewrite E. destruct (new_edge_keeps_uni s k (Some a) (Some b) W) as (_ & B & C). split; assumption.
Qed.

(* v.add_to_universe(u): the full effect, link tables included *)
Definition same_rest (s0 s' : state) : Prop :=
  kind s' = kind s0 /\ vlinks s' = vlinks s0 /\ lverts s' = lverts s0.

Lemma vadd_keeps_rest s v u : same_rest s (fst (step s (VAddToUniverse v u))).
Proof.
  destruct (well_typed s (VAddToUniverse v u)) eqn:WT.
  - rewrite (UniProofs.step_vadd _ _ _ WT). cbn [fst].
    apply (P_v_add_to_universe (same_rest s)).
    + intros t w x H. exact H.
    + intros t w x H. exact H.
    + repeat split.
  - unfold step. rewrite WT. cbn. repeat split.
Qed.

Lemma vadd_effect s v u : Inv s -> isv s v = true -> isu s u = true ->
  let s' := fst (step s (VAddToUniverse v u)) in
  Inv s' /\ next s' = next s /\ (forall i, kd s' i = kd s i) /\
  (forall l, lv s' l = lv s l) /\ (forall w, vl s' w = vl s w) /\
  uv s' u = uv s u ++ (if memn v (uv s u) then [] else [v]) /\
  (forall w, w <> u -> uv s' w = uv s w) /\
  (forall w, vu s' w = vu s w ++ (if Nat.eqb w v && negb (memn u (vu s w)) then [u] else [])).
Proof.
  intros HI Hv Hu s'.
  assert (HI' : Inv s') by (apply Inv_step; [exact HI|discriminate]).
  destruct (vadd_keeps_rest s v u) as (K & VL & LV). fold s' in K, VL, LV.
  split; [exact HI'|]. split; [unfold next; now rewrite K|]. split; [intro; unfold kd; now rewrite K|].
  split; [intro; unfold lv; now rewrite LV|]. split; [intro; unfold vl; now rewrite VL|].
  pose proof HI as (W & _ & U & _).
  assert (WT : well_typed s (VAddToUniverse v u) = true) by (cbn [well_typed]; now rewrite Hv, Hu).
  destruct (memn u (vu s v)) eqn:E.
  - apply memn_In in E. subst s'. rewrite (UniProofs.vadd_member_noop s v u W U WT E). cbn [fst].
    assert (memn v (uv s u) = true) as -> by (apply memn_In; now apply (UniProofs.vside s u v U)).
    split; [now rewrite app_nil_r|]. split; [reflexivity|]. intro w.
    destruct (Nat.eqb_spec w v) as [->|N]; cbn [andb]; [|now rewrite app_nil_r].
    assert (memn u (vu s v) = true) as -> by now apply memn_In. cbn. now rewrite app_nil_r.
  - apply memn_nIn in E. destruct (UniProofs.vadd_new s v u W U WT E) as (A & B & C & D & _). fold s' in A, B, C, D.
    assert (memn v (uv s u) = false) as ->.
    { apply memn_nIn. intro H. apply E. now apply (UniProofs.vside s u v U). }
    split; [exact A|]. split; [exact C|]. intro w.
    destruct (Nat.eqb_spec w v) as [->|N]; cbn [andb].
    + assert (memn u (vu s v) = false) as -> by now apply memn_nIn. exact B.
    + rewrite app_nil_r. now apply D.
Qed.

(* Universe(): allocates the universe u = next s and its default law set next s + 1 *)
Definition after_new_universe (s : state) : state :=
  let s0 := alloc KUniverse s in
  set_ul (set_la (alloc KLaws s0) (next s0) (Some (next s))) (next s) (Some (next s0)).

Lemma new_universe_step s : Inv s ->
  step s (NewUniverse [] None) = (after_new_universe s, Ret (VId (next s))).
Proof.
  intros (W & _ & _ & LI). unfold step. cbn [well_typed forallb oisL andb negb]. cbv zeta.
  destruct (LawsProofs.new_universe_none s W LI) as (E & _). cbv zeta in E.
  rewrite E. cbn [bind seq_res ok_or res_state]. reflexivity.
Qed.

Lemma new_universe_effect s : Inv s ->
  let s' := fst (step s (NewUniverse [] None)) in
  snd (step s (NewUniverse [] None)) = Ret (VId (next s)) /\
  Inv s' /\ next s' = S (S (next s)) /\ kd s' (next s) = KUniverse /\ kd s' (S (next s)) = KLaws /\
  (forall i, i < next s -> kd s' i = kd s i) /\
  (forall l, lv s' l = lv s l) /\ (forall w, vl s' w = vl s w) /\
  (forall w, vu s' w = vu s w) /\ (forall w, uv s' w = uv s w).
Proof.
  intros HI s'.
  assert (HI' : Inv s') by (apply Inv_step; [exact HI|discriminate]).
  subst s'. rewrite new_universe_step in * by exact HI. cbn [fst snd].
  pose proof HI as (W & _).
  assert (W0 : wf (alloc KUniverse s)) by auto with st.
  assert (N0 : next (alloc KUniverse s) = S (next s)) by apply next_alloc.
  unfold after_new_universe. cbv zeta.
  split; [reflexivity|]. split; [exact HI'|].
  split; [srw; rewrite next_alloc; lia|].
  split. { srw. rewrite kd_alloc_old by (auto; lia). now apply kd_alloc_new. }
  split. { srw. rewrite <- N0. now apply kd_alloc_new. }
  split. { intros i Hi. srw. rewrite !kd_alloc_old by (auto; lia). reflexivity. }
  split. { intro l. srw. now rewrite !LinkStep.lv_alloc_all. }
  split. { intro w. srw. now rewrite !LinkStep.vl_alloc_all. }
  split. { intro w. srw. now rewrite !UniProofs.vu_alloc_all. }
  intro w. srw. now rewrite !UniProofs.uv_alloc_all.
Qed.

(* Vertex(): one new vertex with empty tables *)
Lemma new_vertex_step s : wf s ->
  step s (NewVertex false [] []) = (set_vu (alloc KVertex s) (next s) [], Ret (VId (next s))).
Proof.
  intro W. unfold step. cbn [well_typed forallb andb negb]. cbv zeta. cbn [seq_res bind].
  change (dedup []) with (@nil nat).
  rewrite vu_set_vu_same by (auto with st; rewrite next_alloc; lia).
  cbn [seq_res ok_or res_state]. reflexivity.
Qed.

Lemma new_vertex_effect s : Inv s ->
  let s' := fst (step s (NewVertex false [] [])) in
  Inv s' /\ next s' = S (next s) /\ kd s' (next s) = KVertex /\
  (forall i, i < next s -> kd s' i = kd s i) /\
  (forall l, lv s' l = lv s l) /\ (forall w, vl s' w = vl s w) /\
  (forall w, vu s' w = vu s w) /\ (forall w, uv s' w = uv s w).
Proof.
  intros HI s'.
  assert (HI' : Inv s') by (apply Inv_step; [exact HI|discriminate]).
  pose proof HI as (W & _).
  subst s'. rewrite new_vertex_step in * by exact W. cbn [fst].
  assert (W0 : wf (alloc KVertex s)) by auto with st.
  split; [exact HI'|]. split; [srw; apply next_alloc|].
  split; [srw; now apply kd_alloc_new|].
  split; [intros i Hi; srw; now apply kd_alloc_old|].
  split; [intro; srw; now apply LinkStep.lv_alloc_all|].
  split; [intro; srw; now apply LinkStep.vl_alloc_all|].
  split; [|intro; srw; now apply UniProofs.uv_alloc_all].
  intro w. destruct (Nat.eq_dec w (next s)) as [->|N].
  - rewrite vu_set_vu_same by (auto; rewrite next_alloc; lia). symmetry. apply vu_outside; auto.
  - rewrite vu_set_vu_other by congruence. now apply UniProofs.vu_alloc_all.
Qed.

(* ====================================================================================== *)
(* 1. the general lemma: running a list of add_to_universe / link_from_to calls           *)
(* ====================================================================================== *)

Inductive item := AddU (v : nat) | Lnk (a b : nat).
Definition item_op (u : nat) (k : cls) (it : item) : op :=
  match it with AddU v => VAddToUniverse v u | Lnk a b => LinkFromTo a k b false end.
Fixpoint addus (its : list item) : list nat :=
  match its with [] => [] | AddU v :: r => v :: addus r | Lnk _ _ :: r => addus r end.
Fixpoint lnks (its : list item) : list (nat * nat) :=
  match its with [] => [] | AddU _ :: r => lnks r | Lnk a b :: r => (a, b) :: lnks r end.

Lemma addus_app x y : addus (x ++ y) = addus x ++ addus y.
Proof. induction x as [|[v|a b] x IH]; cbn; auto. now rewrite IH. Qed.
Lemma lnks_app x y : lnks (x ++ y) = lnks x ++ lnks y.
Proof. induction x as [|[v|a b] x IH]; cbn; auto. now rewrite IH. Qed.

(* ids (from n on, one per pair) of the pairs that have w as an end *)
Fixpoint new_links (n : nat) (pairs : list (nat * nat)) (w : nat) : list nat :=
  match pairs with
  | [] => []
  | (a, b) :: r => (if Nat.eqb a w || Nat.eqb b w then [n] else []) ++ new_links (S n) r w
  end.

Lemma memn_cons x y l : memn x (y :: l) = Nat.eqb x y || memn x l.
Proof. reflexivity. Qed.
Lemma dedup_acc_ext l : forall seen seen', (forall x, In x seen <-> In x seen') ->
  dedup_acc seen l = dedup_acc seen' l.
Proof.
  induction l as [|y l IH]; intros seen seen' H; cbn; auto.
  assert (E : memn y seen = memn y seen').
  { destruct (memn y seen) eqn:A; symmetry.
    - apply memn_In. apply H. now apply memn_In.
    - apply memn_nIn. rewrite <- H. now apply memn_nIn. }
  rewrite E. destruct (memn y seen'); [now apply IH|]. f_equal. apply IH.
  intro x. cbn. rewrite H. tauto.
Qed.

Definition built (u : nat) (k : cls) (its : list item) (s s' : state) : Prop :=
  Inv s' /\ next s' = next s + length (lnks its) /\
  (forall i, i < next s -> kd s' i = kd s i) /\
  uv s' u = uv s u ++ dedup_acc (uv s u) (addus its) /\
  (forall w, w <> u -> uv s' w = uv s w) /\
  (forall w, vu s' w = vu s w ++ (if memn w (addus its) && negb (memn u (vu s w)) then [u] else [])) /\
  (forall l, l < next s -> lv s' l = lv s l) /\
  (forall i a b, nth_error (lnks its) i = Some (a, b) ->
     lv s' (next s + i) = [Some a; Some b] /\ kd s' (next s + i) = k) /\
  (forall w, vl s' w = vl s w ++ new_links (next s) (lnks its) w).

Definition items_ok (s : state) (its : list item) : Prop :=
  (forall v, In v (addus its) -> isv s v = true) /\
  (forall a b, In (a, b) (lnks its) -> isv s a = true /\ isv s b = true).

Lemma isv_mono s s' v : next s <= next s' -> (forall i, i < next s -> kd s' i = kd s i) ->
  isv s v = true -> isv s' v = true.
Proof.
  intros N K H. pose proof (LinkStep.isv_lt _ _ H) as Hv. unfold isv in *.
  apply andb_true_iff in H as [_ H]. rewrite K by exact Hv. rewrite H.
  assert (valid s' v = true) as -> by (apply valid_lt; lia). reflexivity.
Qed.
Lemma isu_mono s s' v : next s <= next s' -> (forall i, i < next s -> kd s' i = kd s i) ->
  isu s v = true -> isu s' v = true.
Proof.
  intros N K H. pose proof (UniProofs.isu_lt _ _ H) as Hv. unfold isu in *.
  apply andb_true_iff in H as [_ H]. rewrite K by exact Hv. rewrite H.
  assert (valid s' v = true) as -> by (apply valid_lt; lia). reflexivity.
Qed.
Lemma items_ok_mono s s' its : next s <= next s' -> (forall i, i < next s -> kd s' i = kd s i) ->
  items_ok s its -> items_ok s' its.
Proof.
  intros N K [A B]. split.
  - intros v Hv. eapply isv_mono; eauto.
  - intros a b Hab. destruct (B a b Hab). split; eapply isv_mono; eauto.
Qed.

Theorem run_items u k : is_link k = true -> forall its s,
  Inv s -> isu s u = true -> items_ok s its ->
  built u k its s (run (map (item_op u k) its) s).
Proof.
  intros Hk. induction its as [|it its IH]; intros s HI Hu [OKa OKl].
  - cbn [map run fold_left]. unfold built. cbn [addus lnks length dedup_acc new_links memn existsb andb nth_error].
    rewrite Nat.add_0_r, app_nil_r.
    split; [exact HI|]. split; [reflexivity|]. split; [reflexivity|]. split; [reflexivity|].
    split; [reflexivity|]. split; [intro; now rewrite app_nil_r|]. split; [reflexivity|].
    split; [|intro; now rewrite app_nil_r].
    intros [|i] a b H; discriminate H.
  - cbn [map run fold_left]. fold (run (map (item_op u k) its) (fst (step s (item_op u k it)))).
    destruct it as [v|a b]; cbn [item_op].
    + (* add_to_universe *)
      assert (Hv : isv s v = true) by (apply OKa; now left).
      destruct (vadd_effect s v u HI Hv Hu) as (HI1 & N1 & K1 & L1 & V1 & U1 & Uo1 & VU1).
      set (s1 := fst (step s (VAddToUniverse v u))) in *.
      assert (OK1 : items_ok s1 its).
      { apply (items_ok_mono s); [lia|intros; apply K1|]. split.
        - intros x Hx. apply OKa. now right. - intros x y Hxy. now apply OKl. }
      assert (Hu1 : isu s1 u = true) by (apply (isu_mono s); [lia|intros; apply K1|exact Hu]).
      destruct (IH s1 HI1 Hu1 OK1) as (HI' & N' & K' & U' & Uo' & VU' & Lo' & Ln' & V').
      set (s' := run (map (item_op u k) its) s1) in *.
      unfold built. cbn [addus lnks]. split; [exact HI'|]. split; [lia|].
      split. { intros i Hi. rewrite K' by lia. apply K1. }
      split.
      { rewrite U', U1. cbn [dedup_acc]. destruct (memn v (uv s u)) eqn:E.
        - now rewrite app_nil_r.
        - rewrite <- app_assoc. cbn [app]. do 2 f_equal. apply dedup_acc_ext.
          intro x. rewrite in_app_iff. cbn. tauto. }
      split. { intros w Hw. rewrite Uo' by exact Hw. now apply Uo1. }
      split.
      { intro w. rewrite VU', VU1, memn_cons.
        destruct (Nat.eqb_spec w v) as [->|N]; cbn [andb orb].
        - destruct (memn u (vu s v)) eqn:E; cbn [negb].
          + rewrite !app_nil_r, E. cbn [negb]. rewrite andb_false_r. now rewrite ?app_nil_r.
          + rewrite memn_snoc. cbn [negb]. rewrite andb_false_r. now rewrite ?app_nil_r.
        - now rewrite app_nil_r. }
      split. { intros l Hl. rewrite Lo' by lia. apply L1. }
      split. { intros i x y Hi. rewrite <- N1. now apply Ln'. }
      intro w. rewrite V', V1, N1. reflexivity.
    + (* link_from_to *)
      destruct (OKl a b) as [Ha Hb]; [now left|].
      destruct (link_effect s k a b HI Ha Hb Hk) as (HI1 & N1 & Kn1 & K1 & Ln1 & L1 & V1 & VU1 & U1).
      set (s1 := fst (step s (LinkFromTo a k b false))) in *.
      assert (OK1 : items_ok s1 its).
      { apply (items_ok_mono s); [lia|exact K1|]. split.
        - intros x Hx. now apply OKa. - intros x y Hxy. apply OKl. now right. }
      assert (Hu1 : isu s1 u = true) by (apply (isu_mono s); [lia|exact K1|exact Hu]).
      destruct (IH s1 HI1 Hu1 OK1) as (HI' & N' & K' & U' & Uo' & VU' & Lo' & Ln' & V').
      set (s' := run (map (item_op u k) its) s1) in *.
      unfold built. cbn [addus lnks length]. split; [exact HI'|]. split; [lia|].
      split. { intros i Hi. rewrite K' by lia. now apply K1. }
      split. { rewrite U', U1. reflexivity. }
      split. { intros w Hw. rewrite Uo' by exact Hw. apply U1. }
      split. { intro w. rewrite VU', VU1. reflexivity. }
      split. { intros l Hl. rewrite Lo' by lia. apply L1. lia. }
      split.
      { intros [|i] x y Hi; cbn [nth_error] in Hi.
        - inversion Hi; subst x y. rewrite Nat.add_0_r. rewrite Lo', K' by lia. auto.
        - replace (next s + S i) with (next s1 + i) by lia. now apply Ln'. }
      intro w. rewrite V', V1, N1. cbn [new_links]. now rewrite <- app_assoc.
Qed.

(* ---------- new_links: membership, bounds, order ---------- *)
From Coq Require Import Sorted.

Lemma new_links_In pairs w : forall n l,
  In l (new_links n pairs w) <->
  exists i a b, nth_error pairs i = Some (a, b) /\ l = n + i /\ (a = w \/ b = w).
Proof.
  induction pairs as [|[a b] r IH]; intros n l; cbn [new_links].
  - split; [intros []|]. intros ([|i] & x & y & H & _); discriminate H.
  - rewrite in_app_iff, IH. split.
    + intros [H|(i & x & y & H & -> & Hw)].
      * destruct (Nat.eqb a w || Nat.eqb b w) eqn:E; [|destruct H].
        destruct H as [<-|[]]. exists 0, a, b. split; [reflexivity|]. split; [lia|].
        apply orb_true_iff in E. rewrite !Nat.eqb_eq in E. exact E.
      * exists (S i), x, y. split; [exact H|]. split; [lia|exact Hw].
    + intros ([|i] & x & y & H & -> & Hw); cbn [nth_error] in H.
      * inversion H; subst x y. left.
        assert (Nat.eqb a w || Nat.eqb b w = true) as ->.
        { apply orb_true_iff. rewrite !Nat.eqb_eq. exact Hw. }
        left. lia.
      * right. exists i, x, y. split; [exact H|]. split; [lia|exact Hw].
Qed.
Lemma new_links_bounds pairs w n l : In l (new_links n pairs w) -> n <= l < n + length pairs.
Proof.
  intro H. apply new_links_In in H as (i & a & b & H & -> & _).
  assert (i < length pairs) by (apply nth_error_Some; congruence). lia.
Qed.
Lemma new_links_sorted pairs w : forall n, StronglySorted lt (new_links n pairs w).
Proof.
  induction pairs as [|[a b] r IH]; intro n; cbn [new_links]; [constructor|].
  destruct (Nat.eqb a w || Nat.eqb b w); cbn [app]; [|apply IH].
  constructor; [apply IH|]. apply Forall_forall. intros l Hl. apply new_links_bounds in Hl. lia.
Qed.
Lemma sorted_lt_NoDup l : StronglySorted lt l -> NoDup l.
Proof.
  induction 1 as [|x l S IH F]; constructor; auto.
  intro Hx. rewrite Forall_forall in F. specialize (F x Hx). lia.
Qed.
Lemma new_links_NoDup n pairs w : NoDup (new_links n pairs w).
Proof. apply sorted_lt_NoDup, new_links_sorted. Qed.

(* ---------- Universe() followed by such a list: what load_adj_dict / load_adj_matrix run ---------- *)
Definition loaded (k : cls) (its : list item) (s s' : state) : Prop :=
  let u := next s in
  Inv s' /\ kd s' u = KUniverse /\ kd s' (S u) = KLaws /\
  next s' = u + 2 + length (lnks its) /\
  uv s' u = dedup (addus its) /\
  (forall i a b, nth_error (lnks its) i = Some (a, b) ->
     lv s' (u + 2 + i) = [Some a; Some b] /\ kd s' (u + 2 + i) = k) /\
  (forall i, i < u -> kd s' i = kd s i) /\
  (forall l, l < u + 2 -> lv s' l = lv s l) /\
  (forall w, vl s' w = vl s w ++ new_links (u + 2) (lnks its) w) /\
  (forall w, w <> u -> uv s' w = uv s w) /\
  (forall w, vu s' w = vu s w ++ (if memn w (addus its) then [u] else [])).

Theorem run_loader k its s : is_link k = true -> Inv s -> items_ok s its ->
  loaded k its s (run (NewUniverse [] None :: map (item_op (next s) k) its) s).
Proof.
  intros Hk HI OK. cbn [run fold_left].
  fold (run (map (item_op (next s) k) its) (fst (step s (NewUniverse [] None)))).
  destruct (new_universe_effect s HI) as (_ & HI0 & N0 & KU0 & KL0 & K0 & L0 & V0 & VU0 & U0).
  set (s0 := fst (step s (NewUniverse [] None))) in *.
  set (u := next s) in *.
  pose proof HI as (W & _ & UI & _).
  assert (Hu0 : isu s0 u = true).
  { unfold isu. rewrite KU0. assert (valid s0 u = true) as -> by (apply valid_lt; lia). reflexivity. }
  assert (OK0 : items_ok s0 its) by (apply (items_ok_mono s); [fold u; lia|exact K0|exact OK]).
  destruct (run_items u k Hk its s0 HI0 Hu0 OK0) as (HI' & N' & K' & U' & Uo' & VU' & Lo' & Ln' & V').
  set (s' := run (map (item_op u k) its) s0) in *.
  assert (Eu : uv s u = []) by (apply uv_outside; [exact W|unfold u; lia]).
  assert (Nu : forall w, memn u (vu s w) = false).
  { intro w. apply memn_nIn. intro H. apply (UniProofs.vside s u w UI) in H. rewrite Eu in H. destruct H. }
  unfold loaded. fold u.
  split; [exact HI'|]. split; [rewrite K' by lia; exact KU0|]. split; [rewrite K' by lia; exact KL0|].
  split; [lia|]. split; [rewrite U', U0, Eu; reflexivity|].
  split. { intros i a b Hi. replace (u + 2 + i) with (next s0 + i) by lia. now apply Ln'. }
  split. { intros i Hi. rewrite K' by lia. now apply K0. }
  split. { intros l Hl. rewrite Lo' by lia. apply L0. }
  split. { intro w. rewrite V', V0, N0. replace (S (S u)) with (u + 2) by lia. reflexivity. }
  split. { intros w Hw. rewrite Uo' by exact Hw. apply U0. }
  intro w. rewrite VU', VU0, Nu. cbn [negb]. now rewrite andb_true_r.
Qed.

(* the requested reading of the vl frame: old entries stay in place, followed by exactly the new
   links that have w as an end, in creation order *)
Lemma loaded_vl_frame k its s s' w : loaded k its s s' ->
  exists ext, vl s' w = vl s w ++ ext /\
    (forall l, In l ext <-> next s + 2 <= l < next s' /\ In (Some w) (lv s' l)) /\
    NoDup ext /\ StronglySorted lt ext.
Proof.
  intros (_ & _ & _ & N & _ & Ln & _ & _ & V & _).
  exists (new_links (next s + 2) (lnks its) w).
  split; [apply V|]. split; [|split; [apply new_links_NoDup|apply new_links_sorted]].
  intro l. rewrite new_links_In. split.
  - intros (i & a & b & H & -> & Hw).
    assert (i < length (lnks its)) by (apply nth_error_Some; congruence).
    split; [lia|]. destruct (Ln i a b H) as [-> _]. destruct Hw as [->| ->]; cbn; auto.
  - intros [Hl Hin].
    destruct (nth_error (lnks its) (l - (next s + 2))) as [[a b]|] eqn:E.
    2:{ apply nth_error_None in E. lia. }
    exists (l - (next s + 2)), a, b. split; [exact E|]. split; [lia|].
    destruct (Ln _ a b E) as [L _]. replace (next s + 2 + (l - (next s + 2))) with l in L by lia.
    rewrite L in Hin. cbn in Hin. destruct Hin as [[= ->]|[[= ->]|[]]]; auto.
Qed.

(* ====================================================================================== *)
(* PART A — load_adj_dict (C11)                                                           *)
(* ====================================================================================== *)

Definition adj_items (adj : list (nat * list nat)) : list item :=
  flat_map (fun kv => AddU (fst kv) :: flat_map (fun v2 => [Lnk (fst kv) v2; AddU v2]) (snd kv)) adj.
(* the vertices named, in order of mention; the (key, neighbour) pairs, in input order *)
Definition adj_mentions (adj : list (nat * list nat)) : list nat :=
  flat_map (fun kv => fst kv :: snd kv) adj.
Definition adj_pairs (adj : list (nat * list nat)) : list (nat * nat) :=
  flat_map (fun kv => map (fun v => (fst kv, v)) (snd kv)) adj.

Lemma adj_dict_ops_items u k adj : adj_dict_ops u k adj = map (item_op u k) (adj_items adj).
Proof.
  unfold adj_dict_ops, adj_items. induction adj as [|[a vs] adj IH]; cbn [flat_map]; [reflexivity|].
  rewrite map_app, IH. f_equal. cbn [map item_op fst snd]. f_equal.
  induction vs as [|v vs IHv]; cbn [flat_map]; [reflexivity|]. cbn [app map item_op]. now rewrite IHv.
Qed.
Lemma addus_adj_items adj : addus (adj_items adj) = adj_mentions adj.
Proof.
  unfold adj_items, adj_mentions. induction adj as [|[a vs] adj IH]; cbn [flat_map]; [reflexivity|].
  rewrite addus_app, IH. f_equal. cbn [addus fst snd]. f_equal.
  induction vs as [|v vs IHv]; cbn [flat_map app addus]; [reflexivity|]. now rewrite IHv.
Qed.
Lemma lnks_adj_items adj : lnks (adj_items adj) = adj_pairs adj.
Proof.
  unfold adj_items, adj_pairs. induction adj as [|[a vs] adj IH]; cbn [flat_map]; [reflexivity|].
  rewrite lnks_app, IH. f_equal. cbn [lnks fst snd].
  induction vs as [|v vs IHv]; cbn [flat_map app lnks map]; [reflexivity|]. now rewrite IHv.
Qed.
Lemma adj_ok_items s k adj : adj_ok s k adj = true -> is_link k = true /\ items_ok s (adj_items adj).
Proof.
  unfold adj_ok. intro H. apply andb_true_iff in H as [Hk H]. split; [exact Hk|].
  rewrite forallb_forall in H.
  assert (A : forall a vs, In (a, vs) adj -> isv s a = true /\ forall v, In v vs -> isv s v = true).
  { intros a vs Hin. specialize (H _ Hin). cbn [fst snd] in H. apply andb_true_iff in H as [Ha Hvs].
    rewrite forallb_forall in Hvs. auto. }
  split.
  - intros v Hv. rewrite addus_adj_items in Hv. unfold adj_mentions in Hv.
    apply in_flat_map in Hv as ([a vs] & Hin & Hv). destruct (A a vs Hin) as [Ha Hvs].
    cbn [fst snd] in Hv. destruct Hv as [<-|Hv]; auto.
  - intros a b Hab. rewrite lnks_adj_items in Hab. unfold adj_pairs in Hab.
    apply in_flat_map in Hab as ([a' vs] & Hin & Hab). destruct (A a' vs Hin) as [Ha Hvs].
    cbn [fst snd] in Hab. apply in_map_iff in Hab as (v & [= <- <-] & Hv). auto.
Qed.

(* master statement *)
Theorem lad_loaded s adj k : Inv s -> adj_ok s k adj = true ->
  snd (load_adj_dict s adj k) = Ret (VId (next s)) /\
  loaded k (adj_items adj) s (fst (load_adj_dict s adj k)).
Proof.
  intros HI OK. unfold load_adj_dict. rewrite OK. cbn [negb fst snd]. split; [reflexivity|].
  destruct (adj_ok_items s k adj OK) as [Hk IO].
  rewrite adj_dict_ops_items. now apply run_loader.
Qed.

(* A1 *)
Theorem lad_returns_new_universe s adj k : Inv s -> adj_ok s k adj = true ->
  let s' := fst (load_adj_dict s adj k) in let out := snd (load_adj_dict s adj k) in
  out = Ret (VId (next s)) /\ kd s' (next s) = KUniverse /\ Inv s'.
Proof.
  intros HI OK. destruct (lad_loaded s adj k HI OK) as (O & I' & KU & _). cbv zeta. auto.
Qed.

(* A2: the members are exactly the vertices named, in first-mention order *)
Theorem lad_members s adj k : Inv s -> adj_ok s k adj = true ->
  let s' := fst (load_adj_dict s adj k) in
  uv s' (next s) = dedup (flat_map (fun kv => fst kv :: snd kv) adj).
Proof.
  intros HI OK. destruct (lad_loaded s adj k HI OK) as (_ & _ & _ & _ & _ & U & _).
  cbv zeta. rewrite U, addus_adj_items. reflexivity.
Qed.

(* A3: the new links, in input order; id u+1 is the universe's default law set *)
Theorem lad_links s adj k : Inv s -> adj_ok s k adj = true ->
  let s' := fst (load_adj_dict s adj k) in let u := next s in
  let pairs := flat_map (fun kv => map (fun v => (fst kv, v)) (snd kv)) adj in
  next s' = u + 2 + length pairs /\ kd s' (u + 1) = KLaws /\
  forall i, i < length pairs ->
    lv s' (u + 2 + i) = [Some (fst (nth i pairs (0, 0))); Some (snd (nth i pairs (0, 0)))] /\
    kd s' (u + 2 + i) = k.
Proof.
  intros HI OK. destruct (lad_loaded s adj k HI OK) as (_ & _ & _ & KL & N & _ & Ln & _).
  cbv zeta. rewrite lnks_adj_items in *. fold (adj_pairs adj).
  split; [exact N|]. split; [now rewrite Nat.add_1_r|].
  intros i Hi. apply Ln. rewrite (nth_error_nth' _ (0, 0) Hi). now destruct (nth i (adj_pairs adj) (0, 0)).
Qed.

(* A4: every pre-existing object *)
Theorem lad_frame s adj k : Inv s -> adj_ok s k adj = true ->
  let s' := fst (load_adj_dict s adj k) in let u := next s in
  forall i, i < next s ->
    lv s' i = lv s i /\ kd s' i = kd s i /\ uv s' i = uv s i /\
    vu s' i = vu s i ++ (if memn i (adj_mentions adj) then [u] else []) /\
    exists ext, vl s' i = vl s i ++ ext /\
      (forall l, In l ext <-> u + 2 <= l < next s' /\ In (Some i) (lv s' l)) /\
      NoDup ext /\ StronglySorted lt ext.
Proof.
  intros HI OK. destruct (lad_loaded s adj k HI OK) as (_ & L). cbv zeta. intros i Hi.
  pose proof (loaded_vl_frame _ _ _ _ i L) as F.
  destruct L as (_ & _ & _ & _ & _ & _ & K & Lo & _ & U & VU).
  rewrite Lo, K, U, VU by lia. rewrite addus_adj_items. auto.
Qed.
(* the closed form of the same: vl = old ++ ids of the pairs having i as an end *)
Theorem lad_frame_vl_closed s adj k : Inv s -> adj_ok s k adj = true ->
  forall w, vl (fst (load_adj_dict s adj k)) w = vl s w ++ new_links (next s + 2) (adj_pairs adj) w.
Proof.
  intros HI OK w. destruct (lad_loaded s adj k HI OK) as (_ & L).
  destruct L as (_ & _ & _ & _ & _ & _ & _ & _ & V & _). rewrite V, lnks_adj_items. reflexivity.
Qed.
(* an ill-typed call (non-vertex named, or a class that is not a link class) is outside the model *)
Lemma lad_ill_typed s adj k : adj_ok s k adj = false -> load_adj_dict s adj k = (s, Raised IllTyped).
Proof. intro H. unfold load_adj_dict. now rewrite H. Qed.

(* ====================================================================================== *)
(* PART B — load_adj_matrix                                                               *)
(* ====================================================================================== *)

(* B1: a matrix of the wrong shape is rejected whole, nothing touched *)
Theorem lam_bad_shape_raises s m side k :
  length side <> length m \/ (exists row, In row m /\ length row <> length m) ->
  is_link k = true -> forallb (isv s) side = true ->
  load_adj_matrix s m side k = (s, Raised ValueError).
Proof.
  intros H Hk Hs. unfold load_adj_matrix. rewrite Hk, Hs. cbn [andb negb].
  destruct (Nat.eqb_spec (length side) (length m)) as [E|E]; cbn [negb]; [|reflexivity].
  destruct H as [H|(row & Hin & Hr)]; [contradiction|].
  assert (forallb (fun row => Nat.eqb (length row) (length m)) m = false) as ->; [|reflexivity].
  destruct (forallb _ m) eqn:F; [|reflexivity]. rewrite forallb_forall in F.
  specialize (F row Hin). apply Nat.eqb_eq in F. contradiction.
Qed.

(* B2 *)
Definition true_cells (m : list (list bool)) : list (nat * nat) :=
  flat_map (fun ir : nat * list bool =>
              flat_map (fun jc : nat * bool => if snd jc then [(fst ir, fst jc)] else []) (indexed 0 (snd ir)))
           (indexed 0 m).
Definition matrix_pairs (m : list (list bool)) (side : list nat) : list (nat * nat) :=
  map (fun ij => (nth (fst ij) side 0, nth (snd ij) side 0)) (true_cells m).
Definition matrix_items (m : list (list bool)) (side : list nat) : list item :=
  map AddU side ++ map (fun p => Lnk (fst p) (snd p)) (matrix_pairs m side).

Lemma map_flat_map {A B C} (f : B -> C) (g : A -> list B) l :
  map f (flat_map g l) = flat_map (fun x => map f (g x)) l.
Proof. induction l as [|x l IH]; cbn; auto. now rewrite map_app, IH. Qed.
Lemma flat_map_ext_in {A B} (f g : A -> list B) l :
  (forall x, In x l -> f x = g x) -> flat_map f l = flat_map g l.
Proof. induction l as [|x l IH]; cbn; auto. intro H. rewrite H by now left. f_equal. apply IH. auto. Qed.

Lemma matrix_ops_items u k m side : matrix_ops u k m side = map (item_op u k) (matrix_items m side).
Proof.
  unfold matrix_ops, matrix_items, matrix_pairs, true_cells.
  rewrite map_app, !map_map. cbn [item_op]. f_equal.
  rewrite !map_flat_map. apply flat_map_ext_in. intros [i row] _. cbn [fst snd].
  rewrite !map_flat_map. apply flat_map_ext_in. intros [j c] _. cbn [fst snd].
  destruct c; reflexivity.
Qed.
Lemma addus_matrix_items m side : addus (matrix_items m side) = side.
Proof.
  unfold matrix_items. rewrite addus_app.
  assert (A : forall l, addus (map AddU l) = l) by (induction l; cbn; congruence).
  assert (B : forall l, addus (map (fun p : nat * nat => Lnk (fst p) (snd p)) l) = []) by (induction l; cbn; auto).
  now rewrite A, B, app_nil_r.
Qed.
Lemma lnks_matrix_items m side : lnks (matrix_items m side) = matrix_pairs m side.
Proof.
  unfold matrix_items. rewrite lnks_app.
  assert (A : forall l, lnks (map AddU l) = []) by (induction l; cbn; congruence).
  assert (B : forall l, lnks (map (fun p : nat * nat => Lnk (fst p) (snd p)) l) = l).
  { induction l as [|[a b] l IH]; cbn; congruence. }
  now rewrite A, B.
Qed.

Lemma indexed_In {A} (l : list A) : forall n i x, In (i, x) (indexed n l) <-> n <= i /\ nth_error l (i - n) = Some x.
Proof.
  induction l as [|y l IH]; intros n i x; cbn [indexed].
  - split; [intros []|]. intros [_ H]. destruct (i - n); discriminate H.
  - cbn [In]. rewrite IH. split.
    + intros [[= <- <-]|[Hn H]].
      * split; [lia|]. now rewrite Nat.sub_diag.
      * split; [lia|]. replace (i - n) with (S (i - S n)) by lia. exact H.
    + intros [Hn H]. destruct (Nat.eq_dec i n) as [->|N].
      * left. rewrite Nat.sub_diag in H. cbn in H. congruence.
      * right. split; [lia|]. replace (i - n) with (S (i - S n)) in H by lia. exact H.
Qed.

(* the cells listed are exactly the true cells *)
Lemma true_cells_In m i j : In (i, j) (true_cells m) <->
  exists row, nth_error m i = Some row /\ nth_error row j = Some true.
Proof.
  unfold true_cells. rewrite in_flat_map. split.
  - intros ([i' row] & Hir & H). cbn [fst snd] in H. apply in_flat_map in H as ([j' c] & Hjc & H).
    cbn [fst snd] in H. destruct c; [|destruct H]. destruct H as [[= <- <-]|[]].
    apply indexed_In in Hir as [_ Hir]. apply indexed_In in Hjc as [_ Hjc]. rewrite Nat.sub_0_r in *. eauto.
  - intros (row & Hi & Hj). exists (i, row). split.
    + apply indexed_In. rewrite Nat.sub_0_r. split; [lia|exact Hi].
    + cbn [fst snd]. apply in_flat_map. exists (j, true). split; [|now left].
      apply indexed_In. rewrite Nat.sub_0_r. split; [lia|exact Hj].
Qed.

Definition well_shaped (m : list (list bool)) (side : list nat) : Prop :=
  length side = length m /\ forall row, In row m -> length row = length m.

Lemma matrix_items_ok s m side : well_shaped m side -> forallb (isv s) side = true ->
  items_ok s (matrix_items m side).
Proof.
  intros [Hl Hr] Hs. rewrite forallb_forall in Hs. split.
  - intros v Hv. rewrite addus_matrix_items in Hv. auto.
  - intros a b Hab. rewrite lnks_matrix_items in Hab. unfold matrix_pairs in Hab.
    apply in_map_iff in Hab as ([i j] & [= <- <-] & Hij). cbn [fst snd].
    apply true_cells_In in Hij as (row & Hi & Hj).
    assert (i < length m) by (apply nth_error_Some; congruence).
    assert (j < length row) by (apply nth_error_Some; congruence).
    rewrite (Hr row) in * by (eapply nth_error_In; eauto).
    split; apply Hs, nth_In; lia.
Qed.

(* master statement *)
Theorem lam_loaded s m side k : Inv s -> is_link k = true -> forallb (isv s) side = true ->
  well_shaped m side ->
  snd (load_adj_matrix s m side k) = Ret (VId (next s)) /\
  loaded k (matrix_items m side) s (fst (load_adj_matrix s m side k)).
Proof.
  intros HI Hk Hs WS. pose proof WS as [Hl Hr]. unfold load_adj_matrix. rewrite Hk, Hs. cbn [andb negb].
  rewrite Hl, Nat.eqb_refl. cbn [negb].
  assert (forallb (fun row => Nat.eqb (length row) (length m)) m = true) as ->.
  { apply forallb_forall. intros row Hin. apply Nat.eqb_eq. auto. }
  cbn [negb fst snd]. split; [reflexivity|].
  rewrite matrix_ops_items. apply run_loader; auto. now apply matrix_items_ok.
Qed.

Theorem lam_effect s m side k : Inv s -> is_link k = true -> forallb (isv s) side = true ->
  well_shaped m side ->
  let s' := fst (load_adj_matrix s m side k) in let u := next s in
  let cells := true_cells m in
  snd (load_adj_matrix s m side k) = Ret (VId u) /\ Inv s' /\ kd s' u = KUniverse /\
  uv s' u = dedup side /\
  next s' = u + 2 + length cells /\ kd s' (u + 1) = KLaws /\
  (* one link per true cell, in the order of `cells` (row-major, see true_cells_row_major) *)
  (forall n, n < length cells ->
     let '(i, j) := nth n cells (0, 0) in
     lv s' (u + 2 + n) = [Some (nth i side 0); Some (nth j side 0)] /\ kd s' (u + 2 + n) = k) /\
  (* old objects *)
  (forall i, i < next s ->
    lv s' i = lv s i /\ kd s' i = kd s i /\ uv s' i = uv s i /\
    vu s' i = vu s i ++ (if memn i side then [u] else []) /\
    exists ext, vl s' i = vl s i ++ ext /\
      (forall l, In l ext <-> u + 2 <= l < next s' /\ In (Some i) (lv s' l)) /\
      NoDup ext /\ StronglySorted lt ext).
Proof.
  intros HI Hk Hs WS. destruct (lam_loaded s m side k HI Hk Hs WS) as (O & L). cbv zeta.
  split; [exact O|].
  assert (F := fun i => loaded_vl_frame _ _ _ _ i L).
  destruct L as (I' & KU & KL & N & U & Ln & K & Lo & _ & Uo & VU).
  rewrite lnks_matrix_items, addus_matrix_items in *. unfold matrix_pairs in N, Ln. rewrite map_length in N.
  split; [exact I'|]. split; [exact KU|]. split; [exact U|]. split; [exact N|].
  split; [now rewrite Nat.add_1_r|]. split.
  - intros n Hn. destruct (nth n (true_cells m) (0, 0)) as [i j] eqn:E. apply Ln.
    rewrite nth_error_map, (nth_error_nth' _ (0, 0) Hn), E. reflexivity.
  - intros i Hi. rewrite Lo, K, Uo, VU by lia. auto.
Qed.

(* row-major order made explicit: the true cells are the cells of the n x n grid, row by row,
   left to right, that hold True *)
Lemma filter_map_comm {A B} (f : A -> B) (g : B -> bool) l :
  filter g (map f l) = map f (filter (fun x => g (f x)) l).
Proof. induction l as [|x l IH]; cbn; auto. destruct (g (f x)); cbn; now rewrite IH. Qed.
Lemma filter_ext_in' {A} (f g : A -> bool) l : (forall x, In x l -> f x = g x) -> filter f l = filter g l.
Proof. induction l as [|x l IH]; cbn; auto. intro H. rewrite (H x) by now left.
  destruct (g x); [f_equal|]; apply IH; auto. Qed.

Lemma row_cells (i : nat) (row : list bool) : forall p,
  flat_map (fun jc : nat * bool => if snd jc then [(i, fst jc)] else []) (indexed p row) =
  map (fun j => (i, j)) (filter (fun j => nth (j - p) row false) (seq p (length row))).
Proof.
  induction row as [|c r IH]; intro p; cbn [indexed flat_map length seq filter]; [reflexivity|].
  rewrite Nat.sub_diag. cbn [nth fst snd]. rewrite IH.
  assert (E : filter (fun j => nth (j - S p) r false) (seq (S p) (length r)) =
              filter (fun j => nth (j - p) (c :: r) false) (seq (S p) (length r))).
  { apply filter_ext_in'. intros j Hj. apply in_seq in Hj. replace (j - p) with (S (j - S p)) by lia. reflexivity. }
  rewrite E. destruct c; reflexivity.
Qed.

Theorem true_cells_row_major m n : (forall row, In row m -> length row = n) ->
  true_cells m = filter (fun ij => nth (snd ij) (nth (fst ij) m []) false)
                        (list_prod (seq 0 (length m)) (seq 0 n)).
Proof.
  intro Hr. unfold true_cells.
  assert (G : forall m p, (forall row, In row m -> length row = n) ->
    flat_map (fun ir : nat * list bool =>
       flat_map (fun jc : nat * bool => if snd jc then [(fst ir, fst jc)] else []) (indexed 0 (snd ir)))
       (indexed p m) =
    filter (fun ij => nth (snd ij) (nth (fst ij - p) m []) false) (list_prod (seq p (length m)) (seq 0 n))).
  { clear m Hr. induction m as [|row m IH]; intros p Hr; cbn [indexed flat_map length seq list_prod]; [reflexivity|].
    rewrite filter_app, filter_map_comm. cbn [fst snd]. rewrite row_cells, (Hr row) by now left.
    rewrite Nat.sub_diag. cbn [nth]. f_equal.
    - f_equal. apply filter_ext_in'. intros j _. now rewrite Nat.sub_0_r.
    - rewrite IH by (intros; apply Hr; now right). apply filter_ext_in'. intros [i j] Hij.
      apply in_prod_iff in Hij as [Hi _]. apply in_seq in Hi. cbn [fst snd].
      replace (i - p) with (S (i - S p)) by lia. reflexivity. }
  rewrite (G m 0 Hr). apply filter_ext_in'. intros [i j] _. cbn [fst snd]. now rewrite Nat.sub_0_r.
Qed.

(* ====================================================================================== *)
(* PART C — randgraph (C20)                                                               *)
(* ====================================================================================== *)

(* what random.randint(1, max(1, i)) and random.sample(verts, k) guarantee (k <= count) *)
Definition good_draws (scale : nat -> nat) (ens : bool) (count : nat) (draws : list (nat * list nat)) : Prop :=
  length draws = count /\
  forall i r smp, nth_error draws i = Some (r, smp) ->
    1 <= r <= Nat.max 1 i /\ length smp = rg_k scale ens count r /\ NoDup smp /\
    forall j, In j smp -> j < count.

(* C1: the clamp — the sample size never exceeds the population, so sample() cannot raise *)
Theorem rg_k_le_count scale ens count r : rg_k scale ens count r <= count.
Proof. unfold rg_k. apply Nat.le_min_r. Qed.
Lemma rg_k_ge_1 scale count r : 1 <= count -> 1 <= rg_k scale true count r.
Proof. intro H. unfold rg_k. apply Nat.min_glb; [apply Nat.le_max_r|exact H]. Qed.

(* C7: the pinned code had no clamp; with the default connectivity 5/count and count = 1 the
   sample size is 5 > 1 = population: random.sample raises ValueError *)
Definition rg_k_old (scale : nat -> nat) (ens : bool) (count r : nat) : nat :=
  let k := scale r in if ens then Nat.max k 1 else k.
Example randgraph_pinned_would_raise :
  let scale := fun r => r * 5 in
  forall ens, rg_k_old scale ens 1 1 = 5 /\ rg_k_old scale ens 1 1 > 1 /\ rg_k scale ens 1 1 = 1.
Proof. intros scale [|]; repeat split; cbn; lia. Qed.

(* ---------- the count fresh vertices ---------- *)
Lemma new_vertices count : forall s, Inv s ->
  let s1 := run (repeat (NewVertex false [] []) count) s in
  Inv s1 /\ next s1 = next s + count /\
  (forall i, i < next s -> kd s1 i = kd s i) /\
  (forall i, next s <= i < next s + count -> kd s1 i = KVertex) /\
  (forall l, lv s1 l = lv s l) /\ (forall w, vl s1 w = vl s w) /\
  (forall w, vu s1 w = vu s w) /\ (forall w, uv s1 w = uv s w).
Proof.
  induction count as [|n IH]; intros s HI; cbn [repeat run fold_left].
  - rewrite Nat.add_0_r. split; [exact HI|]. split; [reflexivity|]. split; [reflexivity|].
    split; [intros; lia|]. repeat split; reflexivity.
  - fold (run (repeat (NewVertex false [] []) n) (fst (step s (NewVertex false [] [])))).
    destruct (new_vertex_effect s HI) as (HI0 & N0 & KV0 & K0 & L0 & V0 & VU0 & U0).
    set (s0 := fst (step s (NewVertex false [] []))) in *.
    destruct (IH s0 HI0) as (HI1 & N1 & K1 & KV1 & L1 & V1 & VU1 & U1).
    set (s1 := run (repeat (NewVertex false [] []) n) s0) in *.
    split; [exact HI1|]. split; [lia|].
    split. { intros i Hi. rewrite K1 by lia. now apply K0. }
    split. { intros i Hi. destruct (Nat.eq_dec i (next s)) as [->|N].
             - rewrite K1 by lia. exact KV0. - apply KV1. lia. }
    split; [intro; now rewrite L1|]. split; [intro; now rewrite V1|].
    split; [intro; now rewrite VU1|intro; now rewrite U1].
Qed.

(* ---------- the adjacency dict built from the draws ---------- *)
Fixpoint rg_adj_spec (base i : nat) (draws : list (nat * list nat)) : list (nat * list nat) :=
  match draws with
  | [] => []
  | (r, smp) :: rest => (base + i, map (fun j => base + j) smp) :: rg_adj_spec base (S i) rest
  end.

Lemma rg_adj_some scale ens count base : forall draws i,
  (forall r smp, In (r, smp) draws -> length smp = rg_k scale ens count r /\ forall j, In j smp -> j < count) ->
  rg_adj scale ens count base i draws = Some (rg_adj_spec base i draws).
Proof.
  induction draws as [|[r smp] rest IH]; intros i H; cbn [rg_adj rg_adj_spec]; [reflexivity|].
  destruct (H r smp) as [Hl Hj]; [now left|].
  rewrite Hl, Nat.eqb_refl.
  assert (forallb (fun j => Nat.ltb j count) smp = true) as ->.
  { apply forallb_forall. intros j Hin. apply Nat.ltb_lt. auto. }
  cbn [andb]. rewrite IH; [reflexivity|]. intros; apply H; now right.
Qed.
Lemma rg_adj_spec_nth base : forall draws i n,
  nth_error (rg_adj_spec base i draws) n =
  match nth_error draws n with
  | Some (r, smp) => Some (base + i + n, map (fun j => base + j) smp)
  | None => None
  end.
Proof.
  induction draws as [|[r smp] rest IH]; intros i n; cbn [rg_adj_spec].
  - destruct n; reflexivity.
  - destruct n as [|n]; cbn [nth_error].
    + now rewrite Nat.add_0_r.
    + rewrite IH. destruct (nth_error rest n) as [[r' smp']|]; [|reflexivity]. do 2 f_equal. lia.
Qed.
Lemma rg_adj_spec_In base draws a vs : In (a, vs) (rg_adj_spec base 0 draws) <->
  exists n r smp, nth_error draws n = Some (r, smp) /\ a = base + n /\ vs = map (fun j => base + j) smp.
Proof.
  split.
  - intro H. apply In_nth_error in H as [n H]. rewrite rg_adj_spec_nth in H.
    destruct (nth_error draws n) as [[r smp]|] eqn:E; [|discriminate].
    inversion H; subst. exists n, r, smp. split; [exact E|]. split; [lia|reflexivity].
  - intros (n & r & smp & E & -> & ->). apply (nth_error_In _ n). rewrite rg_adj_spec_nth, E.
    do 2 f_equal. lia.
Qed.

Section Randgraph.
  Variables (s : state) (count : nat) (k : cls) (scale : nat -> nat) (ens : bool) (draws : list (nat * list nat)).
  Hypothesis HI : Inv s.
  Hypothesis Hk : is_link k = true.
  Hypothesis GD : good_draws scale ens count draws.

  Let base := next s.
  Let s1 := run (repeat (NewVertex false [] []) count) s.
  Let adj := rg_adj_spec base 0 draws.
  Let u := base + count.
  Let s' := fst (randgraph s count k scale ens draws).

  Lemma rg_draw_in r smp : In (r, smp) draws ->
    length smp = rg_k scale ens count r /\ forall j, In j smp -> j < count.
  Proof.
    intro H. apply In_nth_error in H as [n H]. destruct GD as [_ G].
    destruct (G n r smp H) as (_ & A & _ & B). auto.
  Qed.

  Lemma rg_isv_new v : base <= v < base + count -> isv s1 v = true.
  Proof.
    intro Hv. destruct (new_vertices count s HI) as (_ & N1 & _ & KV & _). fold s1 in N1, KV.
    unfold isv. rewrite (KV v Hv). assert (valid s1 v = true) as -> by (apply valid_lt; fold base in N1; lia).
    reflexivity.
  Qed.

  Lemma rg_adj_ok : adj_ok s1 k adj = true.
  Proof.
    unfold adj_ok. rewrite Hk. cbn [andb]. apply forallb_forall. intros [a vs] Hin. cbn [fst snd].
    apply rg_adj_spec_In in Hin as (n & r & smp & E & -> & ->).
    assert (n < count). { destruct GD as [<- _]. apply nth_error_Some. congruence. }
    apply nth_error_In in E. destruct (rg_draw_in r smp E) as [_ Hj].
    apply andb_true_iff. split; [apply rg_isv_new; lia|].
    apply forallb_forall. intros v Hv. apply in_map_iff in Hv as (j & <- & Hj'). apply rg_isv_new.
    specialize (Hj j Hj'). lia.
  Qed.

  Lemma randgraph_eq : randgraph s count k scale ens draws = load_adj_dict s1 adj k.
  Proof.
    unfold randgraph. rewrite Hk. destruct GD as [-> _]. rewrite Nat.eqb_refl. cbn [andb negb].
    fold base. rewrite (rg_adj_some scale ens count base draws 0 rg_draw_in). reflexivity.
  Qed.

  Lemma rg_loaded : Inv s1 /\ next s1 = u /\
    snd (randgraph s count k scale ens draws) = Ret (VId u) /\ loaded k (adj_items adj) s1 s'.
  Proof.
    destruct (new_vertices count s HI) as (HI1 & N1 & _). fold s1 in HI1, N1.
    destruct (lad_loaded s1 adj k HI1 rg_adj_ok) as [O L].
    unfold s'. rewrite randgraph_eq. rewrite N1 in O. auto.
  Qed.

  (* C2 *)
  Theorem randgraph_returns : snd (randgraph s count k scale ens draws) = Ret (VId (next s + count)).
  Proof. apply rg_loaded. Qed.

  (* the vertices named by the adjacency are exactly the count new ones *)
  Lemma rg_mentions v : In v (adj_mentions adj) <-> base <= v < base + count.
  Proof.
    unfold adj_mentions. rewrite in_flat_map. split.
    - intros ([a vs] & Hin & Hv). cbn [fst snd] in Hv.
      apply rg_adj_spec_In in Hin as (n & r & smp & E & -> & ->).
      assert (n < count). { destruct GD as [<- _]. apply nth_error_Some. congruence. }
      destruct Hv as [<-|Hv]; [lia|].
      apply in_map_iff in Hv as (j & <- & Hj'). apply nth_error_In in E.
      destruct (rg_draw_in r smp E) as [_ Hj]. specialize (Hj j Hj'). lia.
    - intro Hv. destruct (nth_error draws (v - base)) as [[r smp]|] eqn:E.
      2:{ apply nth_error_None in E. destruct GD as [L _]. lia. }
      exists (v, map (fun j => base + j) smp). split; [|now left].
      apply rg_adj_spec_In. exists (v - base), r, smp. split; [exact E|]. split; [lia|reflexivity].
  Qed.

  (* C3: the returned universe has exactly the count new vertices as members *)
  Theorem randgraph_members :
    (forall v, In v (uv s' u) <-> next s <= v < next s + count) /\
    NoDup (uv s' u) /\ length (uv s' u) = count /\
    (forall v, In v (uv s' u) -> kd s' v = KVertex) /\ kd s' u = KUniverse /\ Inv s'.
  Proof.
    destruct rg_loaded as (HI1 & N1 & _ & L).
    destruct L as (I' & KU & _ & _ & U & _ & K & _). rewrite N1 in U, KU, K.
    rewrite addus_adj_items in U.
    assert (M : forall v, In v (uv s' u) <-> next s <= v < next s + count).
    { intro v. rewrite U, dedup_In. apply rg_mentions. }
    assert (ND : NoDup (uv s' u)) by (rewrite U; apply dedup_NoDup).
    split; [exact M|]. split; [exact ND|]. split.
    { rewrite <- (seq_length count (next s)). apply Permutation_length. apply NoDup_Permutation; auto using seq_NoDup.
      intro v. rewrite M, in_seq. lia. }
    split; [|auto]. intros v Hv. apply M in Hv. rewrite K by (unfold u, base; lia).
    destruct (new_vertices count s HI) as (_ & _ & _ & KV & _). now apply KV.
  Qed.

  (* C4: every object the call allocated: count vertices, the universe, its law set, then the
     links — each of class k with both ends among the new vertices *)
  Theorem randgraph_links_inside :
    next s' = u + 2 + length (adj_pairs adj) /\
    forall l, u + 2 <= l < next s' ->
      kd s' l = k /\
      exists a b, lv s' l = [Some a; Some b] /\
                  next s <= a < next s + count /\ next s <= b < next s + count.
  Proof.
    destruct rg_loaded as (HI1 & N1 & _ & L).
    destruct L as (_ & _ & _ & N & _ & Ln & _). rewrite N1, lnks_adj_items in *.
    split; [exact N|]. intros l Hl.
    destruct (nth_error (adj_pairs adj) (l - (u + 2))) as [[a b]|] eqn:E.
    2:{ apply nth_error_None in E. lia. }
    destruct (Ln _ a b E) as [A B]. replace (u + 2 + (l - (u + 2))) with l in * by lia.
    split; [exact B|]. exists a, b. split; [exact A|].
    apply nth_error_In in E. unfold adj_pairs in E. apply in_flat_map in E as ([a' vs] & Hin & E).
    cbn [fst snd] in E. apply in_map_iff in E as (v & [= <- <-] & Hv).
    split; apply rg_mentions; unfold adj_mentions; apply in_flat_map; exists (a', vs); (split; [exact Hin|]);
      cbn [fst snd In]; auto.
  Qed.
  Theorem randgraph_new_kinds :
    (forall i, i < next s -> kd s' i = kd s i) /\
    (forall v, next s <= v < next s + count -> kd s' v = KVertex) /\
    kd s' u = KUniverse /\ kd s' (u + 1) = KLaws.
  Proof.
    destruct rg_loaded as (HI1 & N1 & _ & L).
    destruct L as (_ & KU & KL & _ & _ & _ & K & _). rewrite N1 in *.
    destruct (new_vertices count s HI) as (_ & _ & K1 & KV & _). fold s1 in K1, KV.
    split. { intros i Hi. rewrite K by (unfold u, base; lia). now apply K1. }
    split. { intros v Hv. rewrite K by (unfold u, base; lia). now apply KV. }
    split; [exact KU|]. now rewrite Nat.add_1_r.
  Qed.

  (* C5: ensurelink — every new vertex is the first end of at least one new link *)
  Theorem randgraph_ensurelink : ens = true -> 1 <= count ->
    forall v, next s <= v < next s + count ->
    exists l w, u + 2 <= l < next s' /\ lv s' l = [Some v; Some w] /\ kd s' l = k.
  Proof.
    intros He Hc v Hv.
    destruct rg_loaded as (HI1 & N1 & _ & L).
    destruct L as (_ & _ & _ & N & _ & Ln & _). rewrite N1, lnks_adj_items in *.
    destruct (nth_error draws (v - base)) as [[r smp]|] eqn:E.
    2:{ apply nth_error_None in E. destruct GD as [Lg _]. unfold base in E. lia. }
    destruct GD as [_ G]. destruct (G _ r smp E) as (_ & Hl & _).
    pose proof (rg_k_ge_1 scale count r Hc) as H1. rewrite He in Hl. rewrite <- Hl in H1.
    destruct smp as [|j smp]; [cbn in H1; lia|].
    assert (Hp : In (v, base + j) (adj_pairs adj)).
    { unfold adj_pairs. apply in_flat_map. exists (v, map (fun j => base + j) (j :: smp)). split.
      - apply rg_adj_spec_In. exists (v - base), r, (j :: smp). split; [exact E|]. split; [unfold base; lia|reflexivity].
      - cbn [fst snd map]. now left. }
    apply In_nth_error in Hp as [i Hi].
    assert (i < length (adj_pairs adj)) by (apply nth_error_Some; congruence).
    destruct (Ln i _ _ Hi) as [A B]. exists (u + 2 + i), (base + j). split; [lia|]. auto.
  Qed.

  (* the rest of the heap: framed as by load_adj_dict (the new vertices are old objects for it) *)
  Theorem randgraph_frame : forall i, i < next s ->
    lv s' i = lv s i /\ kd s' i = kd s i /\ vl s' i = vl s i /\ uv s' i = uv s i /\ vu s' i = vu s i.
  Proof.
    intros i Hi.
    destruct rg_loaded as (HI1 & N1 & _ & L).
    destruct L as (_ & _ & _ & _ & _ & _ & K & Lo & V & U & VU). rewrite N1 in *.
    destruct (new_vertices count s HI) as (_ & _ & K1 & _ & L1 & V1 & VU1 & U1).
    fold s1 in K1, L1, V1, VU1, U1.
    rewrite Lo, K, V, U, VU by (unfold u, base; lia). rewrite L1, K1, V1, U1, VU1 by exact Hi.
    assert (memn i (addus (adj_items adj)) = false) as ->.
    { apply memn_nIn. rewrite addus_adj_items, rg_mentions. unfold base. lia. }
    assert (new_links (u + 2) (lnks (adj_items adj)) i = []) as ->.
    { destruct (new_links (u + 2) (lnks (adj_items adj)) i) as [|l r] eqn:E; [reflexivity|].
      assert (Hl : In l (new_links (u + 2) (lnks (adj_items adj)) i)) by (rewrite E; now left).
      apply new_links_In in Hl as (n & a & b & Hn & _ & Hw). rewrite lnks_adj_items in Hn.
      apply nth_error_In in Hn. unfold adj_pairs in Hn. apply in_flat_map in Hn as ([a' vs] & Hin & Hn).
      cbn [fst snd] in Hn. apply in_map_iff in Hn as (v & [= <- <-] & Hv).
      assert (In i (adj_mentions adj)).
      { unfold adj_mentions. apply in_flat_map. exists (a', vs). split; [exact Hin|]. cbn [fst snd].
        destruct Hw as [->| ->]; cbn [In]; auto. }
      apply rg_mentions in H. unfold base in H. lia. }
    now rewrite !app_nil_r.
  Qed.
End Randgraph.

(* C2 in the requested form *)
Theorem randgraph_never_raises s count k scale ens draws :
  Inv s -> is_link k = true -> 1 <= count -> good_draws scale ens count draws ->
  exists u, snd (randgraph s count k scale ens draws) = Ret (VId u).
Proof. intros HI Hk _ GD. eexists. now apply randgraph_returns. Qed.

(* the links, exactly: link u+2+i joins the i-th (vertex, sampled vertex) pair of the draws *)
Theorem randgraph_links_exact s count k scale ens draws :
  Inv s -> is_link k = true -> good_draws scale ens count draws ->
  let s' := fst (randgraph s count k scale ens draws) in let u := next s + count in
  let pairs := flat_map (fun kv => map (fun v => (fst kv, v)) (snd kv)) (rg_adj_spec (next s) 0 draws) in
  forall i a b, nth_error pairs i = Some (a, b) -> lv s' (u + 2 + i) = [Some a; Some b] /\ kd s' (u + 2 + i) = k.
Proof.
  intros HI Hk GD. cbv zeta. destruct (rg_loaded s count k scale ens draws HI Hk GD) as (_ & N1 & _ & L).
  destruct L as (_ & _ & _ & _ & _ & Ln & _). rewrite N1, lnks_adj_items in Ln. exact Ln.
Qed.

(* C6: the result is a function of the arguments and the oracle stream *)
Theorem randgraph_deterministic s count k scale ens d1 d2 :
  d1 = d2 -> randgraph s count k scale ens d1 = randgraph s count k scale ens d2.
Proof. intros ->. reflexivity. Qed.
Theorem randgraph_scale_ext s count k sc1 sc2 ens draws :
  (forall r, sc1 r = sc2 r) -> randgraph s count k sc1 ens draws = randgraph s count k sc2 ens draws.
Proof.
  intro H. unfold randgraph. destruct (negb _); [reflexivity|].
  assert (E : forall d i, rg_adj sc1 ens count (next s) i d = rg_adj sc2 ens count (next s) i d).
  { induction d as [|[r smp] d IH]; intro i; cbn [rg_adj]; [reflexivity|]. unfold rg_k. now rewrite H, IH. }
  now rewrite E.
Qed.

(* non-vacuity: concrete oracle streams satisfying the contract, and the graphs they give *)
Definition draws1 : list (nat * list nat) := [(1, [0])].
Definition draws4 : list (nat * list nat) := [(1, [2]); (1, [0]); (2, [3; 1]); (3, [0; 1; 2])].
Definition scale1 (r : nat) : nat := r * 5.          (* connectivity 5/1 *)
Definition scale4 (r : nat) : nat := r * 5 / 4.      (* connectivity 5/4 *)

Ltac nodup_small := repeat (constructor; [cbn; intuition discriminate|]); constructor.

Example good_draws1 : good_draws scale1 true 1 draws1.
Proof.
  split; [reflexivity|]. intros [|[|i]] r smp H; cbn in H; try discriminate H; inversion H; subst.
  split; [cbn; lia|]. split; [reflexivity|]. split; [nodup_small|]. cbn. intuition lia.
Qed.
Example good_draws4 : good_draws scale4 false 4 draws4.
Proof.
  split; [reflexivity|]. intros [|[|[|[|[|i]]]]] r smp H; cbn in H; try discriminate H; inversion H; subst;
    (split; [cbn; lia|]; split; [reflexivity|]; split; [nodup_small|]; cbn; intuition lia).
Qed.

Example randgraph_count1 :
  let r := randgraph empty 1 KDir scale1 true draws1 in
  snd r = Ret (VId 1) /\ next (fst r) = 4 /\
  kind (fst r) = [KVertex; KUniverse; KLaws; KDir] /\
  uv (fst r) 1 = [0] /\ lv (fst r) 3 = [Some 0; Some 0] /\ vl (fst r) 0 = [3] /\ vu (fst r) 0 = [1].
Proof. vm_compute. repeat split. Qed.

Example randgraph_count4 :
  let r := randgraph empty 4 KUnd scale4 false draws4 in
  snd r = Ret (VId 4) /\ next (fst r) = 13 /\
  kind (fst r) = [KVertex; KVertex; KVertex; KVertex; KUniverse; KLaws; KUnd; KUnd; KUnd; KUnd; KUnd; KUnd; KUnd] /\
  uv (fst r) 4 = [0; 2; 1; 3] /\
  map (lv (fst r)) [6; 7; 8; 9; 10; 11; 12] =
    [[Some 0; Some 2]; [Some 1; Some 0]; [Some 2; Some 3]; [Some 2; Some 1];
     [Some 3; Some 0]; [Some 3; Some 1]; [Some 3; Some 2]] /\
  map (vl (fst r)) [0; 1; 2; 3] = [[6; 7; 10]; [7; 9; 11]; [6; 8; 9; 12]; [8; 10; 11; 12]].
Proof. vm_compute. repeat split. Qed.

(* ====================================================================================== *)
(* A5 — read-back: neighbors() on a vertex that had no links before the load              *)
(* ====================================================================================== *)

Lemma nb_new_links filt (s' : state) (v : nat) (k : cls) (un : unk) : is_directed k = true ->
  forall pairs n acc,
  (forall i a b, nth_error pairs i = Some (a, b) -> lv s' (n + i) = [Some a; Some b] /\ kd s' (n + i) = k) ->
  nb_loop filt s' v Fwd un None (new_links n pairs v) acc =
  NOk (acc ++ map Some (map snd (filter (fun p => Nat.eqb (fst p) v) pairs))).
Proof.
  intro Hd. induction pairs as [|[a b] r IH]; intros n acc H; cbn [new_links filter map nb_loop].
  - now rewrite app_nil_r.
  - assert (Hr : forall i x y, nth_error r i = Some (x, y) ->
                 lv s' (S n + i) = [Some x; Some y] /\ kd s' (S n + i) = k).
    { intros i x y Hi. replace (S n + i) with (n + S i) by lia. now apply H. }
    destruct (H 0 a b eq_refl) as [L K]. rewrite Nat.add_0_r in L, K.
    cbn [fst]. destruct (Nat.eqb_spec a v) as [->|Na]; cbn [orb].
    + cbn [app nb_loop].
      assert (E : nb_link filt s' v Fwd un None n = LAdd (Some b)).
      { unfold nb_link, other, is_end1, is_end2, lv1, lv2. rewrite L, K. cbn [nth_error oeqb]. rewrite Nat.eqb_refl.
        cbn [fok]. destruct k; try discriminate Hd; reflexivity. }
      rewrite E, (IH (S n) _ Hr). cbn [map]. now rewrite <- app_assoc.
    + destruct (Nat.eqb_spec b v) as [->|Nb]; cbn [app nb_loop].
      * assert (E : nb_link filt s' v Fwd un None n = LSkip).
        { unfold nb_link, other, is_end1, is_end2, lv1, lv2. rewrite L, K. cbn [nth_error oeqb].
          rewrite Nat.eqb_refl. assert (Nat.eqb v a = false) as -> by (apply Nat.eqb_neq; congruence).
          assert (Nat.eqb a v = false) as -> by now apply Nat.eqb_neq.
          destruct k; try discriminate Hd; reflexivity. }
        rewrite E. now apply IH.
      * now apply IH.
Qed.

(* the adjacency list recorded for key v ([] when v is not a key) *)
Definition adj_lookup (v : nat) (adj : list (nat * list nat)) : list nat :=
  match find (fun kv => Nat.eqb (fst kv) v) adj with Some kv => snd kv | None => [] end.

Lemma filter_pairs_not_key v adj : ~ In v (map fst adj) ->
  filter (fun p : nat * nat => Nat.eqb (fst p) v) (adj_pairs adj) = [].
Proof.
  unfold adj_pairs. induction adj as [|[a vs] adj IH]; cbn [flat_map map fst snd]; [reflexivity|].
  intro H. rewrite filter_app, IH by (intro; apply H; now right). rewrite app_nil_r.
  rewrite filter_map_comm. cbn [fst].
  assert (Nat.eqb a v = false) as -> by (apply Nat.eqb_neq; intro; apply H; now left).
  assert (E : forall l : list nat, filter (fun _ => false) l = []) by (induction l; auto).
  now rewrite E.
Qed.
Lemma filter_pairs_lookup v adj : NoDup (map fst adj) ->
  filter (fun p : nat * nat => Nat.eqb (fst p) v) (adj_pairs adj) = map (fun w => (v, w)) (adj_lookup v adj).
Proof.
  unfold adj_lookup. induction adj as [|[a vs] adj IH]; cbn [map fst snd find]; intro ND; [reflexivity|].
  inversion ND as [|? ? Hn ND']; subst.
  change (adj_pairs ((a, vs) :: adj)) with (map (fun w => (a, w)) vs ++ adj_pairs adj).
  rewrite filter_app, filter_map_comm. cbn [fst].
  destruct (Nat.eqb_spec a v) as [->|N].
  - rewrite filter_pairs_not_key by exact Hn. rewrite app_nil_r. cbn [snd].
    assert (E : forall l : list nat, filter (fun _ => true) l = l) by (induction l; cbn; congruence).
    now rewrite E.
  - assert (E : forall l : list nat, filter (fun _ => false) l = []) by (induction l; auto).
    rewrite E. cbn [map app]. now apply IH.
Qed.

(* closed form, no hypothesis on the keys *)
Theorem lad_neighbors_fwd filt s adj k v un : Inv s -> adj_ok s k adj = true -> is_directed k = true ->
  vl s v = [] ->
  neighbors_pure filt (fst (load_adj_dict s adj k)) v Fwd un None =
  NOk (map Some (map snd (filter (fun p => Nat.eqb (fst p) v) (adj_pairs adj)))).
Proof.
  intros HI OK Hd Hv. destruct (lad_loaded s adj k HI OK) as (_ & L).
  destruct L as (_ & _ & _ & _ & _ & Ln & _ & _ & V & _). rewrite lnks_adj_items in *.
  unfold neighbors_pure. rewrite V, Hv. cbn [app].
  now rewrite (nb_new_links filt _ v k un Hd (adj_pairs adj) (next s + 2) [] Ln).
Qed.

(* A5: with distinct keys, neighbors(v) of a previously unlinked vertex is its adjacency list,
   element for element — in particular with the same multiplicities *)
Theorem lad_neighbors_readback filt s adj k v un : Inv s -> adj_ok s k adj = true -> NoDup (map fst adj) ->
  is_directed k = true -> vl s v = [] ->
  neighbors_pure filt (fst (load_adj_dict s adj k)) v Fwd un None = NOk (map Some (adj_lookup v adj)).
Proof.
  intros HI OK ND Hd Hv. rewrite (lad_neighbors_fwd filt s adj k v un HI OK Hd Hv).
  rewrite filter_pairs_lookup by exact ND. rewrite !map_map. cbn [snd]. reflexivity.
Qed.
Definition onat_dec : forall a b : option nat, {a = b} + {a <> b}.
Proof. decide equality. apply Nat.eq_dec. Defined.
Corollary lad_neighbors_count filt s adj k v un : Inv s -> adj_ok s k adj = true -> NoDup (map fst adj) ->
  is_directed k = true -> vl s v = [] ->
  exists out, neighbors_pure filt (fst (load_adj_dict s adj k)) v Fwd un None = NOk out /\
              forall w, count_occ onat_dec out (Some w) = count_occ Nat.eq_dec (adj_lookup v adj) w.
Proof.
  intros HI OK ND Hd Hv. eexists. split; [now apply lad_neighbors_readback|].
  intro w. symmetry. apply count_occ_map. intros x y [= ->]. reflexivity.
Qed.

Print Assumptions link_from_to_false_is_new_edge.
Print Assumptions run_items.
Print Assumptions run_loader.
Print Assumptions loaded_vl_frame.
Print Assumptions lad_loaded.
Print Assumptions lad_returns_new_universe.
Print Assumptions lad_members.
Print Assumptions lad_links.
Print Assumptions lad_frame.
Print Assumptions lad_frame_vl_closed.
Print Assumptions lad_neighbors_fwd.
Print Assumptions lad_neighbors_readback.
Print Assumptions lad_neighbors_count.
Print Assumptions lam_bad_shape_raises.
Print Assumptions lam_loaded.
Print Assumptions lam_effect.
Print Assumptions true_cells_In.
Print Assumptions true_cells_row_major.
Print Assumptions rg_k_le_count.
Print Assumptions randgraph_never_raises.
Print Assumptions randgraph_returns.
Print Assumptions randgraph_members.
Print Assumptions randgraph_links_inside.
Print Assumptions randgraph_links_exact.
Print Assumptions randgraph_new_kinds.
Print Assumptions randgraph_ensurelink.
Print Assumptions randgraph_frame.
Print Assumptions randgraph_deterministic.
Print Assumptions randgraph_scale_ext.
Print Assumptions good_draws1.
Print Assumptions good_draws4.
Print Assumptions randgraph_count1.
Print Assumptions randgraph_count4.
Print Assumptions randgraph_pinned_would_raise.
