(* TravCached.v — the traversals and searches as they really run: every neighbors() call goes
   through the memo (Cache.neighbors_c), so the heap state — its cache field — is threaded
   through the loops.  TravCachedProofs.v shows that on a coherent heap they return exactly what
   the pure versions of Trav.v / TravState.v return, and leave a coherent heap that differs from
   the initial one in the memo only (C05 for traversals and searches).
   Model-side file: definitions only. *)
From EG Require Import Base State Nbrs Trav.

Section Stateful.
  Variable St : Type.
  Variable nbs : St -> nat -> St * nres.          (* a neighbour oracle with a state (the memo) *)
  Variable uni : option (list nat).
  Variable fres : node -> bool.

  Definition nbos (s : St) (v : node) : St * nres :=
    match v with Some x => nbs s x | None => (s, NErr AttributeError) end.

  Fixpoint bft_loop_st (fuel : nat) (s : St) (q vis out : list node) : St * tres :=
    match fuel with 0 => (s, TFuel) | S f =>
      match q with
      | [] => (s, TOk out)
      | u :: q' =>
          match nbos s u with
          | (s1, NErr e) => (s1, TErr e)
          | (s1, NOk ns) => let '(q2, vis2, out2) := fold_left (bft_discover uni fres) ns (q', vis, out) in
                            bft_loop_st f s1 q2 vis2 out2
          end
      end
    end.
  Definition bft_st (fuel : nat) (s : St) (start : nat) : St * tres :=
    match uni with
    | Some [] => (s, TOk [])
    | _ => if negb (inU uni (Some start)) then (s, TErr ValueError)
           else bft_loop_st fuel s [Some start] [Some start] (emit fres (Some start) [])
    end.

  Inductive dres_st := DOkS (s : St) (vis out : list node) | DErrS (s : St) (e : exn) | DFuelS (s : St).
  Fixpoint dfr_st (fuel : nat) (s : St) (v : node) (vis out : list node) : dres_st :=
    match fuel with 0 => DFuelS s | S f =>
      let vis1 := v :: vis in
      let out1 := emit fres v out in
      match nbos s v with
      | (s1, NErr e) => DErrS s1 e
      | (s1, NOk ns) =>
          (fix go (ws : list node) (s : St) (vis out : list node) : dres_st :=
             match ws with
             | [] => DOkS s vis out
             | w :: r =>
                 if inU uni w && negb (nmem w vis)
                 then match dfr_st f s w vis out with
                      | DOkS s' vis' out' => go r s' vis' out'
                      | e => e
                      end
                 else go r s vis out
             end) ns s1 vis1 out1
      end
    end.
  Definition dft_rec_st (fuel : nat) (s : St) (start : nat) : St * tres :=
    match df_preflight uni start with
    | Some e => (s, TErr e)
    | None => match dfr_st fuel s (Some start) [] [] with
              | DOkS s' _ out => (s', TOk out) | DErrS s' e => (s', TErr e) | DFuelS s' => (s', TFuel)
              end
    end.

  Fixpoint dfi_loop_st (fuel : nat) (s : St) (stack disc out : list node) : St * tres :=
    match fuel with 0 => (s, TFuel) | S f =>
      match stack with
      | [] => (s, TOk out)
      | v :: st =>
          if nmem v disc then dfi_loop_st f s st disc out
          else if negb (inU uni v) then dfi_loop_st f s st disc out
          else match nbos s v with
               | (s1, NErr e) => (s1, TErr e)
               | (s1, NOk ns) => dfi_loop_st f s1 (rev ns ++ st) (disc ++ [v]) (emit fres v out)
               end
      end
    end.
  Definition dft_iter_st (fuel : nat) (s : St) (start : nat) : St * tres :=
    match df_preflight uni start with
    | Some e => (s, TErr e)
    | None => dfi_loop_st fuel s [Some start] [] []
    end.

  (* ---- searches ---- *)
  Variable m : node -> bool.
  Fixpoint bfs_loop_st (fuel : nat) (s : St) (q vis : list node) : St * sres :=
    match fuel with 0 => (s, SFuel) | S f =>
      match q with
      | [] => (s, SOk None)
      | u :: q' =>
          match nbos s u with
          | (s1, NErr e) => (s1, SErr e)
          | (s1, NOk ns) => match bfs_scan uni m ns q' vis with
                            | BFound v => (s1, SOk (Some v))
                            | BCont q2 vis2 => bfs_loop_st f s1 q2 vis2
                            end
          end
      end
    end.
  Definition bfs_st (fuel : nat) (s : St) (start : nat) : St * sres :=
    match uni with
    | Some [] => (s, SOk None)
    | _ => if negb (inU uni (Some start)) then (s, SErr ValueError)
           else if m (Some start) then (s, SOk (Some (Some start)))
           else bfs_loop_st fuel s [Some start] [Some start]
    end.
  Inductive rres_st := RFoundS (s : St) (v : node) | RNoneS (s : St) (vis : list node) | RErrS (s : St) (e : exn) | RFuelS (s : St).
  Fixpoint dfs_recur_st (fuel : nat) (s : St) (v : node) (vis : list node) : rres_st :=
    match fuel with 0 => RFuelS s | S f =>
      match nbos s v with
      | (s1, NErr e) => RErrS s1 e
      | (s1, NOk ns) =>
          (fix go (ws : list node) (s : St) (vis : list node) : rres_st :=
             match ws with
             | [] => RNoneS s vis
             | w :: r =>
                 if inU uni w && negb (nmem w vis)
                 then if m w then RFoundS s w
                      else match dfs_recur_st f s w vis with
                           | RNoneS s' vis' => go r s' vis'
                           | x => x
                           end
                 else go r s vis
             end) ns s1 (v :: vis)
      end
    end.
  Definition dfs_rec_st (fuel : nat) (s : St) (start : nat) : St * sres :=
    match df_preflight uni start with
    | Some e => (s, SErr e)
    | None => if m (Some start) then (s, SOk (Some (Some start)))
              else match dfs_recur_st fuel s (Some start) [] with
                   | RFoundS s' v => (s', SOk (Some v)) | RNoneS s' _ => (s', SOk None)
                   | RErrS s' e => (s', SErr e) | RFuelS s' => (s', SFuel)
                   end
    end.

  Fixpoint dfsi_loop_st (fuel : nat) (s : St) (stack disc : list node) : St * sres :=
    match fuel with 0 => (s, SFuel) | S f =>
      match stack with
      | [] => (s, SOk None)
      | v :: st =>
          if negb (inU uni v) then dfsi_loop_st f s st disc
          else if nmem v disc then dfsi_loop_st f s st disc
          else if m v then (s, SOk (Some v))
          else match nbos s v with
               | (s1, NErr e) => (s1, SErr e)
               | (s1, NOk ns) => dfsi_loop_st f s1 (rev ns ++ st) (disc ++ [v])
               end
      end
    end.
  Definition dfs_iter_st (fuel : nat) (s : St) (start : nat) : St * sres :=
    match df_preflight uni start with
    | Some e => (s, SErr e)
    | None => dfsi_loop_st fuel s [Some start] []
    end.
End Stateful.
