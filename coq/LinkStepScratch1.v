From EG Require Import Base Lemmas Lemmas2 State StateLemmas Nbrs Struct Footprint StateRw Ref LinkProofs.
Check P_bind. Check P_seq_res. Check P_u_add_vertex. Check P_l_set_applies. Check P_seq_ores. Check P_u_set_laws.
