"""Fail-closed translator: edgegraph/traversal/helpers.py  ->  coq/gen/GenNbrs.v

Translates the per-link if/elif cascades inside the `for link in ...links:` loops of neighbors()
and find_links() into Gallina decision functions over a finite link view:

  gen_nb_decide (d : dirn) (u : unk) (k_und k_dir e1 e2 fk : bool) : dec
  gen_fl_decide (ds : bool) (u : unk) (k_und k_dir e1 joins fk : bool) : dec

Vocabulary (anything else aborts the translation; the check then falls back to the exhaustive
row correspondence and says so in the evidence):
  tests    direction_sensitive == DIR_SENS_*, unknown_handling == LNK_UNKNOWN_*, direction_sensitive
           (truthiness, find_links), issubclass(type(link), X) / isinstance(link, X),
           link.v1 is|is not <vertex>, link.v2 is|is not <vertex>, link.other(<vertex>) is|is not <other>,
           v2 is|is not <other> (after `v2 = link.other(vert)`), filterfunc is None or filterfunc(link[, v2]),
           and / or / not
  actions  nbs.append(v2 | link.other(vert)), links.add(link), continue, pass,
           raise NotImplementedError(...) / ValueError(...)
An append/add must be the last thing executed on its path (no second append can follow)."""
import ast
import hashlib
from pathlib import Path


class Unsupported(Exception):
    pass


DIRS = {"DIR_SENS_FORWARD": "Fwd", "DIR_SENS_BACKWARD": "Bwd", "DIR_SENS_ANY": "AnyDir"}
UNKS = {"LNK_UNKNOWN_ERROR": "UErr", "LNK_UNKNOWN_NONNEIGHBOR": "UNon", "LNK_UNKNOWN_NEIGHBOR": "UNb"}
EXNS = {"NotImplementedError", "ValueError", "TypeError", "IndexError", "KeyError", "AttributeError"}


def _name(n):
    return n.id if isinstance(n, ast.Name) else None


class Ctx:
    def __init__(self, kind, vert, other_name):
        self.kind = kind            # 'nb' or 'fl'
        self.vert = vert            # name of the vertex variable the loop iterates links of
        self.other_vertex = other_name  # find_links: the name of the second vertex
        self.v2_bound = False       # `v2 = link.other(vert)` seen


def is_other_call(n, ctx):
    return (isinstance(n, ast.Call) and isinstance(n.func, ast.Attribute) and n.func.attr == "other"
            and _name(n.func.value) == "link" and len(n.args) == 1 and _name(n.args[0]) == ctx.vert and not n.keywords)


def tr_test(t, ctx):
    if isinstance(t, ast.BoolOp):
        # the filter idiom
        if isinstance(t.op, ast.Or) and len(t.values) == 2:
            a, b = t.values
            if (isinstance(a, ast.Compare) and _name(a.left) == "filterfunc" and len(a.ops) == 1 and isinstance(a.ops[0], ast.Is)
                    and isinstance(a.comparators[0], ast.Constant) and a.comparators[0].value is None
                    and isinstance(b, ast.Call) and _name(b.func) == "filterfunc" and not b.keywords):
                args = b.args
                if ctx.kind == "nb":
                    ok = (len(args) == 2 and _name(args[0]) == "link"
                          and ((_name(args[1]) == "v2" and ctx.v2_bound) or is_other_call(args[1], ctx)))
                else:
                    ok = len(args) == 1 and _name(args[0]) == "link"
                if not ok:
                    raise Unsupported("filterfunc called with unexpected arguments")
                return "fk"
        parts = [tr_test(v, ctx) for v in t.values]
        op = " && " if isinstance(t.op, ast.And) else " || "
        return "(" + op.join(parts) + ")"
    if isinstance(t, ast.UnaryOp) and isinstance(t.op, ast.Not):
        return f"(negb {tr_test(t.operand, ctx)})"
    if isinstance(t, ast.Name):
        if t.id == "direction_sensitive" and ctx.kind == "fl":
            return "ds"
        raise Unsupported(f"truthiness of {t.id}")
    if isinstance(t, ast.Call):
        f = _name(t.func)
        if f == "issubclass" and len(t.args) == 2 and isinstance(t.args[0], ast.Call) and _name(t.args[0].func) == "type" \
                and len(t.args[0].args) == 1 and _name(t.args[0].args[0]) == "link":
            cls = _name(t.args[1])
        elif f == "isinstance" and len(t.args) == 2 and _name(t.args[0]) == "link":
            cls = _name(t.args[1])
        else:
            raise Unsupported("call in test: " + ast.dump(t)[:80])
        if cls == "UnDirectedEdge":
            return "k_und"
        if cls == "DirectedEdge":
            return "k_dir"
        raise Unsupported(f"class test against {cls}")
    if isinstance(t, ast.Compare) and len(t.ops) == 1:
        l, op, r = t.left, t.ops[0], t.comparators[0]
        if isinstance(op, (ast.Eq, ast.NotEq)):
            neg = isinstance(op, ast.NotEq)
            a, b = _name(l), _name(r)
            if a in DIRS or a in UNKS:
                a, b = b, a
            res = None
            if a == "direction_sensitive" and b in DIRS and ctx.kind == "nb":
                res = f"dirn_eqb d {DIRS[b]}"
            elif a == "unknown_handling" and b in UNKS:
                res = f"unk_eqb u {UNKS[b]}"
            if res is None:
                raise Unsupported("comparison " + ast.dump(t)[:80])
            return f"(negb ({res}))" if neg else f"({res})"
        if isinstance(op, (ast.Is, ast.IsNot)):
            neg = isinstance(op, ast.IsNot)
            res = None
            if isinstance(l, ast.Attribute) and _name(l.value) == "link" and l.attr in ("v1", "v2") and _name(r) == ctx.vert:
                if ctx.kind == "fl" and l.attr == "v2":
                    raise Unsupported("find_links view has no v2 position flag")
                res = "e1" if l.attr == "v1" else "e2"
            elif _name(l) == ctx.vert and isinstance(r, ast.Attribute) and _name(r.value) == "link" and r.attr in ("v1", "v2"):
                if ctx.kind == "fl" and r.attr == "v2":
                    raise Unsupported("find_links view has no v2 position flag")
                res = "e1" if r.attr == "v1" else "e2"
            elif ctx.kind == "fl" and (is_other_call(l, ctx) or (_name(l) == "other_end" and ctx.v2_bound)) \
                    and _name(r) == ctx.other_vertex:
                res = "joins"
            if res is None:
                raise Unsupported("identity test " + ast.dump(t)[:80])
            return f"(negb {res})" if neg else res
    raise Unsupported("test " + ast.dump(t)[:80])


def tr_block(stmts, ctx):
    """Decision taken by executing `stmts` (then falling off the loop body)."""
    if not stmts:
        return "DSkip"
    s, rest = stmts[0], stmts[1:]
    if isinstance(s, ast.Pass):
        return tr_block(rest, ctx)
    if isinstance(s, ast.Continue):
        return "DSkip"
    if isinstance(s, ast.Raise):
        exc = s.exc
        n = _name(exc.func) if isinstance(exc, ast.Call) else _name(exc)
        if n not in EXNS:
            raise Unsupported(f"raise {n}")
        return f"(DRaise {n})"
    if isinstance(s, ast.Expr) and isinstance(s.value, ast.Constant) and isinstance(s.value.value, str):
        return tr_block(rest, ctx)
    if isinstance(s, ast.Assign) and len(s.targets) == 1 and ctx.kind == "nb" and _name(s.targets[0]) == "v2" \
            and is_other_call(s.value, ctx):
        ctx.v2_bound = True
        return tr_block(rest, ctx)
    if isinstance(s, ast.Expr) and isinstance(s.value, ast.Call) and isinstance(s.value.func, ast.Attribute):
        c = s.value
        tgt, meth = _name(c.func.value), c.func.attr
        if ctx.kind == "nb" and tgt == "nbs" and meth == "append" and len(c.args) == 1 and not c.keywords \
                and ((_name(c.args[0]) == "v2" and ctx.v2_bound) or is_other_call(c.args[0], ctx)):
            pass
        elif ctx.kind == "fl" and tgt == "links" and meth == "add" and len(c.args) == 1 and _name(c.args[0]) == "link":
            pass
        else:
            raise Unsupported("call statement " + ast.dump(c)[:80])
        if tr_block(rest, ctx) != "DSkip":
            raise Unsupported("statements after append/add on the same path")
        return "DAdd"
    if isinstance(s, ast.If):
        c = tr_test(s.test, ctx)
        a = tr_block(list(s.body) + rest, ctx)
        b = tr_block(list(s.orelse) + rest, ctx)
        return f"(if {c} then {a} else {b})"
    raise Unsupported("statement " + ast.dump(s)[:80])


def find_loop(fn, ctx_kind):
    loops = [n for n in fn.body if isinstance(n, ast.For)]
    if len(loops) != 1:
        raise Unsupported(f"{fn.name}: expected exactly one top-level for loop, found {len(loops)}")
    lp = loops[0]
    if _name(lp.target) != "link" or lp.orelse:
        raise Unsupported(f"{fn.name}: loop target is not `link`")
    it = lp.iter
    if not (isinstance(it, ast.Attribute) and it.attr == "links" and isinstance(it.value, ast.Name)):
        raise Unsupported(f"{fn.name}: loop does not iterate <vertex>.links")
    return lp, it.value.id


def check_skeleton(fn, kind):
    """the statements around the loop must be the known skeleton (their semantics is tied by the
    correspondence legs, not by this translator)"""
    names = [type(n).__name__ for n in fn.body]
    body = [n for n in fn.body if not (isinstance(n, ast.Expr) and isinstance(n.value, ast.Constant))]
    kinds = [type(n).__name__ for n in body]
    if kind == "nb":
        ok = kinds in (["Assign", "If", "Assign", "For", "Expr", "Return"],)
    else:
        ok = kinds in (["Assign", "For", "Return"],)
    if not ok:
        raise Unsupported(f"{fn.name}: unexpected statements around the loop: {kinds}")
    ret = body[-1]
    want = "nbs" if kind == "nb" else "links"
    if _name(ret.value) != want:
        raise Unsupported(f"{fn.name}: does not return {want}")


def translate(src):
    tree = ast.parse(src)
    consts = {}
    fns = {}
    for n in tree.body:
        if isinstance(n, ast.Assign) and len(n.targets) == 1 and isinstance(n.targets[0], ast.Name) \
                and isinstance(n.value, ast.Constant):
            consts[n.targets[0].id] = n.value.value
        if isinstance(n, ast.FunctionDef):
            fns[n.name] = n
    for grp in (DIRS, UNKS):
        vals = [consts.get(k) for k in grp]
        if any(v is None for v in vals) or len(set(vals)) != len(vals):
            raise Unsupported(f"constants {list(grp)} are not distinct module-level literals: {vals}")
    out = {}
    fn = fns.get("neighbors")
    if fn is None:
        raise Unsupported("no neighbors()")
    check_skeleton(fn, "nb")
    lp, vert = find_loop(fn, "nb")
    if vert != fn.args.args[0].arg:
        raise Unsupported("neighbors loop is not over its first parameter's links")
    ctx = Ctx("nb", vert, None)
    out["nb"] = tr_block(list(lp.body), ctx)
    fn = fns.get("find_links")
    if fn is None:
        raise Unsupported("no find_links()")
    check_skeleton(fn, "fl")
    lp, vert = find_loop(fn, "fl")
    if vert != fn.args.args[0].arg:
        raise Unsupported("find_links loop is not over its first parameter's links")
    ctx = Ctx("fl", vert, fn.args.args[1].arg)
    out["fl"] = tr_block(list(lp.body), ctx)
    return out


HEADER = """(* GENERATED on every run by translate/helpers_to_coq.py from edgegraph/traversal/helpers.py — do not edit.
   source sha1: %s *)
From EG Require Import Base State Nbrs NbrsDecide.

Definition gen_nb_decide (d : dirn) (u : unk) (k_und k_dir e1 e2 fk : bool) : dec :=
  %s.

Definition gen_fl_decide (ds : bool) (u : unk) (k_und k_dir e1 joins fk : bool) : dec :=
  %s.
"""


def regenerate(repo, target):
    src_path = Path(repo) / "edgegraph" / "traversal" / "helpers.py"
    target = Path(target)
    try:
        src = src_path.read_text()
        tr = translate(src)
        text = HEADER % (hashlib.sha1(src.encode()).hexdigest(), tr["nb"], tr["fl"])
        status = {"status": "translated", "source": str(src_path), "sha1": hashlib.sha1(src.encode()).hexdigest()}
    except (Unsupported, SyntaxError, OSError, IndexError, AttributeError) as e:
        # fall back: the generated definitions are the hand-written ones, so that the build still
        # goes through; the evidence records that the translator tie is not in force on this run
        text = HEADER % ("UNTRANSLATED: " + str(e).replace("*)", "* )")[:200],
                         "nb_decide d u k_und k_dir e1 e2 fk", "fl_decide ds u k_und k_dir e1 joins fk")
        status = {"status": "unsupported construct, fell back to the exhaustive row correspondence", "reason": str(e)[:300]}
    target.parent.mkdir(parents=True, exist_ok=True)
    if not target.exists() or target.read_text() != text:
        target.write_text(text)
        status["rewritten"] = True
    return status


if __name__ == "__main__":
    import sys
    print(regenerate(sys.argv[1] if len(sys.argv) > 1 else "/repo", sys.argv[2] if len(sys.argv) > 2 else "/dev/stdout"))
