(* DESIGN-PHASE SKETCH, not part of the framework yet: compiled with coqc 8.16.1 on 2026-09-30,
   'Closed under the global context'. Kept to show the proof strategy of DESIGN.md section 6/9 works. *)
From Coq Require Import List Arith Bool Lia.
Import ListNotations.
Section Heap.
Variable A : Type. Variable dflt : A.
Fixpoint set (i : nat) (a : A) (h : list A) : list A :=
  match h, i with
  | [], _ => []
  | _ :: t, 0 => a :: t
  | x :: t, S j => x :: set j a t
  end.
Definition get (i : nat) (h : list A) : A := nth i h dflt.
Lemma set_length i a h : length (set i a h) = length h.
Proof. revert i; induction h; destruct i; cbn; auto. Qed.
Lemma get_set_same i a h : i < length h -> get i (set i a h) = a.
Proof. revert i; induction h; destruct i; cbn; intros; try lia; auto. apply IHh; lia. Qed.
Lemma get_set_other i j a h : i <> j -> get j (set i a h) = get j h.
Proof. unfold get. revert i j; induction h as [|x h IH]; destruct i, j; cbn; intros Hij; try congruence; auto. Qed.
Lemma set_get i h : set i (get i h) h = h.
Proof. revert i; induction h; destruct i; cbn; auto. unfold get in *. cbn. f_equal. apply IHh. Qed.
Lemma set_set i a b h : set i a (set i b h) = set i a h.
Proof. revert i; induction h; destruct i; cbn; auto. f_equal; auto. Qed.
Lemma set_comm i j a b h : i <> j -> set i a (set j b h) = set j b (set i a h).
Proof. revert i j; induction h; destruct i, j; cbn; intros; try congruence; auto. f_equal; auto. Qed.
End Heap.
