(* DESIGN-PHASE SKETCH, not part of the framework yet: compiled with coqc 8.16.1 on 2026-09-30,
   Print Assumptions lazy_equals_recursive: 'Closed under the global context'. DESIGN.md section 6-C10. *)
From Coq Require Import List Arith Bool Lia.
Import ListNotations.
Section Pickler.
(* one invocation of dill's save() on one object, given the memo at entry *)
Inductive action := Write (b : nat) | Memo (x : nat) | Save (x : nat).
Variable expand : list nat -> nat -> list action.   (* dill's per-type behaviour: a parameter *)
Definition put (idx : nat) : nat := 1000 + idx.      (* the PUT/MEMOIZE opcode written by memoize *)

(* recursive pickler: a child is saved completely before the parent goes on *)
Inductive RunA : list action -> list nat -> list nat -> list nat -> list nat -> Prop :=
| RA_nil m o : RunA [] m o m o
| RA_write b t m o m' o' : RunA t m (o ++ [b]) m' o' -> RunA (Write b :: t) m o m' o'
| RA_memo x t m o m' o' : RunA t (m ++ [x]) (o ++ [put (length m)]) m' o' -> RunA (Memo x :: t) m o m' o'
| RA_save x t m o m1 o1 m' o' :
    RunA (expand m x) m o m1 o1 -> RunA t m1 o1 m' o' -> RunA (Save x :: t) m o m' o'.

(* nrpickler: self.lazywrites holds deferred writes / memos / saves *)
Inductive item := IW (b : nat) | IM (x : nat) | IS (x : nat).
Definition item_of (a : action) : item :=
  match a with Write b => IW b | Memo x => IM x | Save x => IS x end.
Definition lstate := (list item * list nat * list nat)%type.

(* lazywrite / lazymemoize / save as written: defer iff the queue is non-empty; save always defers *)
Definition lazy_act (st : lstate) (a : action) : lstate :=
  let '(lz, m, o) := st in
  match a with
  | Write b => match lz with [] => ([], m, o ++ [b]) | _ => (lz ++ [IW b], m, o) end
  | Memo x  => match lz with [] => ([], m ++ [x], o ++ [put (length m)]) | _ => (lz ++ [IM x], m, o) end
  | Save x  => (lz ++ [IS x], m, o)
  end.
(* realsave(obj) called from dump()'s loop: the queue is empty at that moment *)
Definition realsave (x : nat) (m o : list nat) : lstate := fold_left lazy_act (expand m x) ([], m, o).

(* dump()'s drain loop; "extend with the tail and restart" and "continue" are the same step here *)
Inductive Drain : list item -> list nat -> list nat -> list nat -> list nat -> Prop :=
| D_nil m o : Drain [] m o m o
| D_w b q m o m' o' : Drain q m (o ++ [b]) m' o' -> Drain (IW b :: q) m o m' o'
| D_m x q m o m' o' : Drain q (m ++ [x]) (o ++ [put (length m)]) m' o' -> Drain (IM x :: q) m o m' o'
| D_s x q lz m o m1 o1 m' o' :
    realsave x m o = (lz, m1, o1) -> Drain (lz ++ q) m1 o1 m' o' -> Drain (IS x :: q) m o m' o'.

Lemma fold_deferred : forall t lz m o, lz <> [] ->
  fold_left lazy_act t (lz, m, o) = (lz ++ map item_of t, m, o).
Proof.
  induction t as [|a t IH]; intros lz m o Hne; cbn [fold_left map].
  - now rewrite app_nil_r.
  - assert (Hstep : lazy_act (lz, m, o) a = (lz ++ [item_of a], m, o)).
    { destruct a; cbn; destruct lz; try congruence; reflexivity. }
    rewrite Hstep, IH; [| destruct lz; cbn; congruence].
    now rewrite <- app_assoc.
Qed.

(* running the direct prefix of a save body = draining the same items from the queue *)
Lemma drain_prefix : forall t m o lz m1 o1 q m' o',
  fold_left lazy_act t ([], m, o) = (lz, m1, o1) ->
  Drain (lz ++ q) m1 o1 m' o' -> Drain (map item_of t ++ q) m o m' o'.
Proof.
  induction t as [|a t IH]; intros m o lz m1 o1 q m' o' Hf Hd; cbn [fold_left map app] in *.
  - injection Hf as <- <- <-. exact Hd.
  - destruct a as [b|x|x]; cbn [lazy_act item_of] in *.
    + apply D_w. eapply IH; eauto.
    + apply D_m. eapply IH; eauto.
    + rewrite fold_deferred in Hf by discriminate. injection Hf as <- <- <-. exact Hd.
Qed.

(* converse of drain_prefix: what realsave left in the queue continues the drained body *)
Lemma replay_prefix : forall body m o lz ma oa R m' o',
  fold_left lazy_act body ([], m, o) = (lz, ma, oa) ->
  Drain (map item_of body ++ R) m o m' o' -> Drain (lz ++ R) ma oa m' o'.
Proof.
  induction body as [|a body IHb]; intros m o lz ma oa R m' o' Hrs Hd; cbn [fold_left map app] in *.
  - injection Hrs as <- <- <-. exact Hd.
  - destruct a as [b|y|y]; cbn [lazy_act item_of] in *.
    + inversion Hd; subst. eapply IHb; eauto.
    + inversion Hd; subst. eapply IHb; eauto.
    + rewrite fold_deferred in Hrs by discriminate. injection Hrs as <- <- <-. exact Hd.
Qed.

Lemma defunctionalise : forall t m o m1 o1, RunA t m o m1 o1 ->
  forall q m' o', Drain q m1 o1 m' o' -> Drain (map item_of t ++ q) m o m' o'.
Proof.
  induction 1 as [m o | b t m o m1 o1 _ IH | x t m o m1 o1 _ IH
                 | x t m o m1 o1 m2 o2 _ IH1 _ IH2]; intros q m' o' Hq; cbn [map app item_of].
  - exact Hq.
  - apply D_w. apply IH. exact Hq.
  - apply D_m. apply IH. exact Hq.
  - destruct (realsave x m o) as [[lz ma] oa] eqn:Hrs.
    eapply D_s; [exact Hrs|]. eapply replay_prefix; [exact Hrs|].
    apply IH1. apply IH2. exact Hq.
Qed.

(* the scheduler produces exactly the recursive pickler's stream and memo, for every object graph
   on which the recursive pickler terminates - any size, depth, sharing or cycle *)
Theorem lazy_equals_recursive : forall root m0 o0 m' o',
  RunA (expand m0 root) m0 o0 m' o' -> Drain [IS root] m0 o0 m' o'.
Proof.
  intros root m0 o0 m' o' H.
  pose proof (defunctionalise [Save root] m0 o0 m' o') as Hd. cbn in Hd.
  apply Hd with (q := []); [| constructor].
  eapply RA_save; [exact H | constructor].
Qed.

Lemma Drain_det : forall q m o m1 o1, Drain q m o m1 o1 -> forall m2 o2, Drain q m o m2 o2 -> m1 = m2 /\ o1 = o2.
Proof.
  induction 1; intros m2 o2 H2; inversion H2; subst; auto.
  match goal with H1 : realsave _ _ _ = _, H2 : realsave _ _ _ = _ |- _ => rewrite H1 in H2; injection H2 as <- <- <- end.
  auto.
Qed.
End Pickler.
Print Assumptions lazy_equals_recursive.
