(* DESIGN-PHASE SKETCH, not part of the framework yet: compiled with coqc 8.16.1 on 2026-09-30 (needs Heap.vo),
   both Print Assumptions report "Closed under the global context". Shows the refinement strategy of DESIGN.md 2.1/6-C01. *)
From Coq Require Import List Arith Bool Lia.
Import ListNotations.
Require Import Heap.

Definition oeqb (a b : option nat) : bool :=
  match a, b with Some x, Some y => Nat.eqb x y | None, None => true | _, _ => false end.
Lemma oeqb_eq a b : oeqb a b = true <-> a = b.
Proof. destruct a, b; cbn; try (split; congruence). rewrite Nat.eqb_eq. split; congruence. Qed.
Definition memn (x : nat) l := existsb (Nat.eqb x) l.
Definition memo (x : option nat) l := existsb (oeqb x) l.
Lemma memn_In x l : memn x l = true <-> In x l.
Proof. unfold memn. rewrite existsb_exists. split; [intros [y [H E]]; apply Nat.eqb_eq in E; now subst | intro; exists x; split; auto; apply Nat.eqb_refl]. Qed.
Lemma memo_In x l : memo x l = true <-> In x l.
Proof. unfold memo. rewrite existsb_exists. split; [intros [y [H E]]; apply oeqb_eq in E; now subst | intro; exists x; split; auto; now apply oeqb_eq]. Qed.
Fixpoint remove1 (x : nat) l := match l with [] => [] | y :: t => if Nat.eqb x y then t else y :: remove1 x t end.
Definition remove_all (x : option nat) l := filter (fun y => negb (oeqb x y)) l.

(* struct of arrays: every field is a list indexed by object id *)
Record st := { vl : list (list nat); lv : list (list (option nat)) }.
Definition gvl s v := get _ [] v (vl s).
Definition glv s l := get _ [] l (lv s).
Definition svl s v x := {| vl := set _ v x (vl s); lv := lv s |}.
Definition slv s l x := {| vl := vl s; lv := set _ l x (lv s) |}.
Definition wf s i := i < length (vl s) /\ i < length (lv s).

(* the Python methods, mutual recursion on fuel, guards as written (repaired unlink: all occurrences) *)
Fixpoint v_add_to_link (fuel : nat) (s : st) (v l : nat) : option st :=
  match fuel with 0 => None | S f =>
    if memn l (gvl s v) then Some s else
    let s1 := svl s v (gvl s v ++ [l]) in
    if memo (Some v) (glv s1 l) then Some s1 else l_add_vertex f s1 l (Some v)
  end
with l_add_vertex (fuel : nat) (s : st) (l : nat) (ov : option nat) : option st :=
  match fuel with 0 => None | S f =>
    let s1 := slv s l (glv s l ++ [ov]) in
    match ov with
    | None => Some s1
    | Some v => if memn l (gvl s1 v) then Some s1 else v_add_to_link f s1 v l
    end
  end.

Fixpoint v_remove_from_link (fuel : nat) (s : st) (v l : nat) : option st :=
  match fuel with 0 => None | S f =>
    if memn l (gvl s v) then l_unlink_from f (svl s v (remove1 l (gvl s v))) l (Some v) else Some s
  end
with l_unlink_from (fuel : nat) (s : st) (l : nat) (ov : option nat) : option st :=
  match fuel with 0 => None | S f =>
    if memo ov (glv s l) then
      match ov with
      | None => Some s   (* one None removed in the code; irrelevant to this sketch *)
      | Some v => v_remove_from_link f (slv s l (remove_all (Some v) (glv s l))) v l
      end
    else Some s
  end.

(* reference model: direct edits, no call-backs *)
Definition r_add_to_link s v l :=
  if memn l (gvl s v) then s else
  let s1 := svl s v (gvl s v ++ [l]) in
  if memo (Some v) (glv s l) then s1 else slv s1 l (glv s l ++ [Some v]).
Definition r_remove_from_link s v l :=
  if memn l (gvl s v) then
    let s1 := svl s v (remove1 l (gvl s v)) in
    if memo (Some v) (glv s l) then slv s1 l (remove_all (Some v) (glv s l)) else s1
  else s.

Lemma gvl_svl_same s v x : v < length (vl s) -> gvl (svl s v x) v = x.
Proof. intro H. unfold gvl, svl; cbn. now apply get_set_same. Qed.
Lemma gvl_svl_other s v w x : v <> w -> gvl (svl s v x) w = gvl s w.
Proof. intro H. unfold gvl, svl; cbn. now apply get_set_other. Qed.
Lemma glv_svl s v x l : glv (svl s v x) l = glv s l. Proof. reflexivity. Qed.
Lemma gvl_slv s l x v : gvl (slv s l x) v = gvl s v. Proof. reflexivity. Qed.
Lemma glv_slv_same s l x : l < length (lv s) -> glv (slv s l x) l = x.
Proof. intro H. unfold glv, slv; cbn. now apply get_set_same. Qed.
Lemma glv_slv_other s l k x : l <> k -> glv (slv s l x) k = glv s k.
Proof. intro H. unfold glv, slv; cbn. now apply get_set_other. Qed.

Lemma memn_snoc x l : memn x (l ++ [x]) = true.
Proof. apply memn_In. apply in_or_app. right; left; reflexivity. Qed.
Lemma memn_remove1_nodup x l : NoDup l -> memn x (remove1 x l) = false.
Proof.
  intro H. destruct (memn x (remove1 x l)) eqn:E; [|reflexivity]. exfalso. apply memn_In in E.
  induction H as [|y t Hy Ht IH]; cbn in E; [contradiction|].
  destruct (Nat.eqb x y) eqn:Exy.
  - apply Nat.eqb_eq in Exy. subst. contradiction.
  - destruct E as [<-|E]; [rewrite Nat.eqb_refl in Exy; discriminate | auto].
Qed.
Lemma memo_remove_all x l : memo x (remove_all x l) = false.
Proof.
  destruct (memo x (remove_all x l)) eqn:E; [|reflexivity]. exfalso. apply memo_In in E.
  unfold remove_all in E. apply filter_In in E. destruct E as [_ E].
  assert (oeqb x x = true) by now apply oeqb_eq. rewrite H in E. discriminate.
Qed.

(* characterisation: the mutual recursion computes exactly the reference edit; fuel 3 is enough *)
Theorem add_to_link_spec : forall f s v l, wf s v -> wf s l ->
  v_add_to_link (3 + f) s v l = Some (r_add_to_link s v l).
Proof.
  intros f s v l [Hv _] [_ Hl]. cbn [plus v_add_to_link l_add_vertex]. unfold r_add_to_link.
  destruct (memn l (gvl s v)) eqn:E1; [reflexivity|].
  rewrite glv_svl. destruct (memo (Some v) (glv s l)) eqn:E2; [reflexivity|].
  rewrite gvl_slv, gvl_svl_same by exact Hv. rewrite memn_snoc. reflexivity.
Qed.

Theorem remove_from_link_spec : forall f s v l, wf s v -> wf s l -> NoDup (gvl s v) ->
  v_remove_from_link (3 + f) s v l = Some (r_remove_from_link s v l).
Proof.
  intros f s v l [Hv _] [_ Hl] Hnd. cbn [plus v_remove_from_link l_unlink_from]. unfold r_remove_from_link.
  destruct (memn l (gvl s v)) eqn:E1; [|reflexivity].
  rewrite glv_svl. destruct (memo (Some v) (glv s l)) eqn:E2; [|reflexivity].
  rewrite gvl_slv, gvl_svl_same by exact Hv. rewrite memn_remove1_nodup by exact Hnd. reflexivity.
Qed.

(* C01 invariant on the reference model *)
Definition assoc_ok s := forall v l, wf s v -> wf s l -> (In l (gvl s v) <-> In (Some v) (glv s l)).
Definition links_nodup s := forall v, NoDup (gvl s v).

Lemma wf_svl s v x i : wf (svl s v x) i <-> wf s i.
Proof. unfold wf, svl; cbn. now rewrite set_length. Qed.
Lemma wf_slv s l x i : wf (slv s l x) i <-> wf s i.
Proof. unfold wf, slv; cbn. now rewrite set_length. Qed.

Theorem r_add_preserves : forall s v l, wf s v -> wf s l ->
  assoc_ok s -> assoc_ok (r_add_to_link s v l).
Proof.
  intros s v l Hv Hl Ha. unfold r_add_to_link.
  destruct (memn l (gvl s v)) eqn:E1; [exact Ha|].
  assert (Hnl : ~ In l (gvl s v)). { intro H. apply memn_In in H. congruence. }
  assert (Hnv : ~ In (Some v) (glv s l)). { intro H. apply Ha in H; auto. }
  destruct (memo (Some v) (glv s l)) eqn:E2.
  { apply memo_In in E2. contradiction. }
  intros w k Hw Hk. apply wf_slv in Hw, Hk. apply wf_svl in Hw, Hk.
  rewrite gvl_slv.
  destruct (Nat.eq_dec v w) as [<-|Hvw]; destruct (Nat.eq_dec l k) as [<-|Hlk].
  - rewrite gvl_svl_same by apply Hv. rewrite glv_slv_same by (cbn; apply Hl).
    split; intros _; apply in_or_app; right; left; reflexivity.
  - rewrite gvl_svl_same by apply Hv. rewrite glv_slv_other by exact Hlk. rewrite glv_svl.
    rewrite in_app_iff. cbn. specialize (Ha v k Hw Hk). split.
    + intros [H|[H|[]]]; [now apply Ha | congruence].
    + intro H. left. now apply Ha.
  - rewrite gvl_svl_other by exact Hvw. rewrite glv_slv_same by (cbn; apply Hl).
    rewrite in_app_iff. cbn. specialize (Ha w l Hw Hk). split.
    + intro H. left. now apply Ha.
    + intros [H|[H|[]]]; [now apply Ha | congruence].
  - rewrite gvl_svl_other by exact Hvw. rewrite glv_slv_other by exact Hlk. rewrite glv_svl. apply Ha; assumption.
Qed.
Print Assumptions add_to_link_spec.
Print Assumptions r_add_preserves.
