(* DESIGN-PHASE SKETCH, not part of the framework yet: compiled with coqc 8.16.1 on 2026-09-30,
   'Closed under the global context'. Kept to show the proof strategy of DESIGN.md section 6/9 works. *)
From Coq Require Import List Arith Bool Lia.
Import ListNotations.
Section Dfs.
Variable nb : nat -> list nat.
Variable inU : nat -> bool.

(* explicit-stack DFS, mark on pop; head of the list is the top of the stack *)
Inductive Iter : list nat -> list nat -> list nat -> Prop :=
| I_nil d : Iter [] d d
| I_skip v rest d d' : (In v d \/ inU v = false) -> Iter rest d d' -> Iter (v :: rest) d d'
| I_go v rest d d' : ~ In v d -> inU v = true ->
    Iter (rev (nb v) ++ rest) (d ++ [v]) d' -> Iter (v :: rest) d d'.

(* recursive pre-order over a neighbour function g, processing a list of candidates *)
Inductive RecL (g : nat -> list nat) : list nat -> list nat -> list nat -> Prop :=
| RL_nil vis : RecL g [] vis vis
| RL_skip w ws vis vis' : (In w vis \/ inU w = false) -> RecL g ws vis vis' -> RecL g (w :: ws) vis vis'
| RL_go w ws vis vis1 vis' : ~ In w vis -> inU w = true ->
    RecL g (g w) (vis ++ [w]) vis1 -> RecL g ws vis1 vis' -> RecL g (w :: ws) vis vis'.

Lemma defunctionalise : forall ws vis vis',
  RecL (fun v => rev (nb v)) ws vis vis' ->
  forall rest d', Iter rest vis' d' -> Iter (ws ++ rest) vis d'.
Proof.
  induction 1 as [vis | w ws vis vis' Hs _ IH | w ws vis vis1 vis' Hn Hu _ IH1 _ IH2];
    intros rest d' Hrest; cbn [app].
  - exact Hrest.
  - apply I_skip; [exact Hs | apply IH; exact Hrest].
  - apply I_go; [exact Hn | exact Hu |].
    rewrite app_assoc_reverse || idtac.
    apply IH1. apply IH2. exact Hrest.
Qed.

Theorem iter_is_reversed_preorder : forall s out,
  RecL (fun v => rev (nb v)) [s] [] out -> Iter [s] [] out.
Proof.
  intros s out H. replace [s] with ([s] ++ []) by apply app_nil_r.
  eapply defunctionalise; [exact H | constructor].
Qed.

(* determinism of the machine: the output is a function of nb alone *)
Lemma Iter_det : forall st d d1, Iter st d d1 -> forall d2, Iter st d d2 -> d1 = d2.
Proof.
  induction 1 as [d | v rest d d' Hs _ IH | v rest d d' Hn Hu _ IH]; intros d2 H2; inversion H2; subst; auto.
  - destruct Hs as [Hs|Hs]; [contradiction | congruence].
  - match goal with H : _ \/ _ |- _ => destruct H as [H|H]; [contradiction | congruence] end.
Qed.

(* reachability through in-universe vertices *)
Inductive reach (s : nat) : nat -> Prop :=
| r_refl : reach s s
| r_step v w : reach s v -> In w (nb v) -> inU w = true -> reach s w.

Lemma Iter_incl : forall st d d', Iter st d d' -> incl d d'.
Proof.
  induction 1; intros x Hx; auto. apply IHIter. apply in_or_app; auto.
Qed.

(* soundness: everything newly listed is reachable from an in-universe stack entry *)
Lemma Iter_sound : forall st d d', Iter st d d' ->
  forall v, In v d' -> In v d \/ exists x, In x st /\ inU x = true /\ reach x v.
Proof.
  induction 1 as [d | v0 rest d d' Hs _ IH | v0 rest d d' Hn Hu _ IH]; intros v Hv.
  - auto.
  - destruct (IH v Hv) as [?|[x [Hx ?]]]; [auto | right; exists x; split; [right; exact Hx | assumption]].
  - destruct (IH v Hv) as [Hin|[x [Hx [Hux Hr]]]].
    + apply in_app_or in Hin. destruct Hin as [?|[->|[]]]; [auto|].
      right. exists v. split; [left; reflexivity | split; [exact Hu | constructor]].
    + apply in_app_or in Hx. destruct Hx as [Hx|Hx].
      * apply in_rev in Hx. right. exists v0. split; [left; reflexivity | split; [exact Hu|]].
        clear - Hx Hux Hr. induction Hr.
        -- eapply r_step; [constructor | exact Hx | exact Hux].
        -- eapply r_step; eauto.
      * right. exists x. split; [right; exact Hx | auto].
Qed.

(* completeness: the result is closed under in-universe neighbours and absorbs the stack *)
Definition closed_upto (d st : list nat) :=
  forall v, In v d -> forall w, In w (nb v) -> inU w = true -> In w d \/ In w st.

Lemma Iter_complete : forall st d d', Iter st d d' -> closed_upto d st ->
  closed_upto d' [] /\ (forall x, In x st -> inU x = true -> In x d').
Proof.
  induction 1 as [d | v0 rest d d' Hs Hit IH | v0 rest d d' Hn Hu Hit IH]; intros Hc.
  - split; [exact Hc | intros x []].
  - assert (Hc' : closed_upto d rest).
    { intros v Hv w Hw Hwu. destruct (Hc v Hv w Hw Hwu) as [?|[<-|?]]; auto.
      destruct Hs as [?|Hs]; [auto | congruence]. }
    destruct (IH Hc') as [H1 H2]. split; [exact H1|].
    intros x [<-|Hx] Hxu; [| auto].
    destruct Hs as [Hs|Hs]; [| congruence]. eapply Iter_incl; eauto.
  - assert (Hc' : closed_upto (d ++ [v0]) (rev (nb v0) ++ rest)).
    { intros v Hv w Hw Hwu. apply in_app_or in Hv. destruct Hv as [Hv|[<-|[]]].
      - destruct (Hc v Hv w Hw Hwu) as [?|[<-|?]].
        + left; apply in_or_app; auto.
        + left; apply in_or_app; right; left; reflexivity.
        + right; apply in_or_app; auto.
      - right. apply in_or_app. left. apply in_rev in Hw. exact Hw. }
    destruct (IH Hc') as [H1 H2]. split; [exact H1|].
    intros x [<-|Hx] Hxu.
    + eapply Iter_incl; [exact Hit|]. apply in_or_app; right; left; reflexivity.
    + apply H2; [apply in_or_app; auto | exact Hxu].
Qed.

Theorem iter_exact : forall s out, inU s = true -> Iter [s] [] out ->
  forall v, In v out <-> reach s v.
Proof.
  intros s out Hs H v. split.
  - intro Hv. destruct (Iter_sound _ _ _ H v Hv) as [[]|[x [[<-|[]] [_ Hr]]]]. exact Hr.
  - destruct (Iter_complete _ _ _ H) as [Hcl Hst]; [intros ? []|].
    intro Hr. induction Hr as [|x w _ IH Hw Hwu].
    + apply Hst; [left; reflexivity | exact Hs].
    + destruct (Hcl x IH w Hw Hwu) as [Hin|[]]. exact Hin.
Qed.

Lemma NoDup_snoc : forall (d : list nat) v, NoDup d -> ~ In v d -> NoDup (d ++ [v]).
Proof.
  induction d as [|a d IHd]; intros v Hd Hn; cbn.
  - constructor; [intros [] | constructor].
  - inversion Hd as [|? ? Ha Hd']; subst. constructor.
    + intro Hx. apply in_app_or in Hx. destruct Hx as [Hx|[<-|[]]]; [contradiction|].
      apply Hn. left; reflexivity.
    + apply IHd; [exact Hd' | intro Hx; apply Hn; right; exact Hx].
Qed.

Lemma Iter_nodup : forall st d d', Iter st d d' -> NoDup d -> NoDup d'.
Proof.
  induction 1 as [d | v rest d d' _ _ IH | v rest d d' Hn _ _ IH]; intro Hd; auto.
  apply IH. apply NoDup_snoc; assumption.
Qed.

Lemma Iter_head : forall s out, inU s = true -> Iter [s] [] out -> exists tl, out = s :: tl.
Proof.
  intros s out Hs H. inversion H as [| ? ? ? ? Hsk _ | ? ? ? ? _ _ Hgo]; subst.
  - destruct Hsk as [[]|Hsk]; congruence.
  - apply Iter_incl in Hgo. cbn in Hgo.
    assert (Hpre : forall st d d', Iter st d d' -> exists tl, d' = d ++ tl).
    { clear. induction 1 as [d | ? ? ? ? _ _ IH | ? ? ? ? _ _ _ IH].
      - exists []. now rewrite app_nil_r.
      - exact IH.
      - destruct IH as [tl ->]. exists (v :: tl). now rewrite <- app_assoc. }
    inversion H as [| ? ? ? ? Hsk _ | ? ? ? ? _ _ Hgo2]; subst.
    + destruct Hsk as [[]|Hsk]; congruence.
    + destruct (Hpre _ _ _ Hgo2) as [tl ->]. exists tl. reflexivity.
Qed.
End Dfs.
Print Assumptions iter_exact.
Print Assumptions iter_is_reversed_preorder.
