(* DESIGN-PHASE SKETCH, not part of the framework yet: compiled with coqc 8.16.1 on 2026-09-30,
   'Closed under the global context'. Kept to show the proof strategy of DESIGN.md section 6/9 works. *)
From Coq Require Import List Arith Bool Lia.
Import ListNotations.
Section Bfs.
Variable nb : nat -> list nat.
Variable inU : nat -> bool.
Definition mem (x : nat) (l : list nat) := existsb (Nat.eqb x) l.
Lemma mem_In x l : mem x l = true <-> In x l.
Proof. unfold mem. rewrite existsb_exists. split.
  - intros [y [Hy He]]. apply Nat.eqb_eq in He. now subst.
  - intro H. exists x. split; [exact H | apply Nat.eqb_refl]. Qed.
Lemma mem_nIn x l : mem x l = false <-> ~ In x l.
Proof. rewrite <- mem_In. destruct (mem x l); split; intro H; try congruence; try discriminate. Qed.

(* neighbours of the popped vertex that get enqueued, in order (mark on enqueue) *)
Fixpoint discover (ws seen : list nat) : list nat :=
  match ws with
  | [] => []
  | w :: ws' => if inU w && negb (mem w seen)
                then w :: discover ws' (seen ++ [w]) else discover ws' seen
  end.

Inductive Bfs : list nat -> list nat -> list nat -> Prop :=
| B_nil out : Bfs [] out out
| B_pop u q out out' :
    Bfs (q ++ discover (nb u) out) (out ++ discover (nb u) out) out' -> Bfs (u :: q) out out'.

Lemma discover_sound : forall ws seen w, In w (discover ws seen) ->
  In w ws /\ inU w = true /\ ~ In w seen.
Proof.
  induction ws as [|a ws IH]; intros seen w H; cbn in H; [contradiction|].
  destruct (inU a) eqn:Ha; cbn [andb] in H.
  - destruct (mem a seen) eqn:Hm; cbn [negb] in H.
    + destruct (IH _ _ H) as (?&?&?); auto with datatypes.
    + destruct H as [<-|H].
      * split; [left; reflexivity | split; [exact Ha | now apply mem_nIn]].
      * destruct (IH _ _ H) as (?&?&Hn). split; [right; assumption | split; [assumption|]].
        intro Hx. apply Hn. apply in_or_app; auto.
  - destruct (IH _ _ H) as (?&?&?); auto with datatypes.
Qed.

Lemma discover_nodup : forall ws seen, NoDup (discover ws seen).
Proof.
  induction ws as [|a ws IH]; intros seen; cbn; [constructor|].
  destruct (inU a && negb (mem a seen)); [|apply IH].
  constructor; [|apply IH]. intro H. apply discover_sound in H. destruct H as (_&_&Hn).
  apply Hn. apply in_or_app; right; left; reflexivity.
Qed.

Lemma discover_complete : forall ws seen w, In w ws -> inU w = true ->
  In w seen \/ In w (discover ws seen).
Proof.
  induction ws as [|a ws IH]; intros seen w Hw Hu; [contradiction|]. cbn.
  destruct Hw as [->|Hw].
  - rewrite Hu. cbn [andb]. destruct (mem w seen) eqn:Hm; cbn [negb].
    + left. now apply mem_In.
    + right. left. reflexivity.
  - destruct (inU a && negb (mem a seen)).
    + destruct (IH (seen ++ [a]) w Hw Hu) as [H|H].
      * apply in_app_or in H. destruct H as [H|[<-|[]]]; [left; exact H | right; left; reflexivity].
      * right. right. exact H.
    + apply IH; assumption.
Qed.

Variable s : nat.
Inductive path : nat -> nat -> Prop :=
| p0 : path 0 s
| pS n v w : path n v -> In w (nb v) -> inU w = true -> path (S n) w.

Fixpoint sorted_by (lv : nat -> nat) (l : list nat) : Prop :=
  match l with [] => True | x :: t => (forall y, In y t -> lv x <= lv y) /\ sorted_by lv t end.

Lemma sorted_app lv l r : sorted_by lv (l ++ r) <->
  sorted_by lv l /\ sorted_by lv r /\ (forall x y, In x l -> In y r -> lv x <= lv y).
Proof.
  induction l as [|a l IH]; cbn.
  - split; [intro H; repeat split; auto; intros ? ? [] | intros (_&H&_); exact H].
  - rewrite IH. split.
    + intros (Ha & Hl & Hr & Hlr). repeat split; auto.
      * intros y Hy. apply Ha. apply in_or_app; auto.
      * intros x y [<-|Hx] Hy; [apply Ha; apply in_or_app; auto | auto].
    + intros ((Ha & Hl) & Hr & Hlr). repeat split; auto.
      intros y Hy. apply in_app_or in Hy. destruct Hy; [auto | apply Hlr; [left; reflexivity | assumption]].
Qed.

Lemma sorted_ext lv lv' l : (forall x, In x l -> lv x = lv' x) -> sorted_by lv l -> sorted_by lv' l.
Proof.
  induction l as [|a l IH]; cbn; [auto|]. intros He (Ha & Hl). split.
  - intros y Hy. rewrite <- (He a), <- (He y); auto.
  - apply IH; auto.
Qed.

Lemma sorted_const lv l c : (forall x, In x l -> lv x = c) -> sorted_by lv l.
Proof.
  induction l as [|a l IH]; cbn; intro H; [exact I|]. split.
  - intros y Hy. rewrite (H a), (H y); auto.
  - apply IH. intros; apply H; auto.
Qed.

Record Inv (lv : nat -> nat) (P Q out : list nat) : Prop := {
  i_split : out = P ++ Q;
  i_nodup : NoDup out;
  i_sorted : sorted_by lv out;
  i_bound : forall h, hd_error Q = Some h -> forall x, In x out -> lv x <= S (lv h);
  i_closed : forall u, In u P -> forall w, In w (nb u) -> inU w = true -> In w out /\ lv w <= S (lv u);
  i_path : forall x, In x out -> path (lv x) x;
  i_start : In s out /\ lv s = 0
}.

Lemma Bfs_inv : forall q out out', Bfs q out out' ->
  forall lv P, Inv lv P q out -> exists lv', Inv lv' out' [] out'.
Proof.
  induction 1 as [out | u q out out' _ IH]; intros lv P HI.
  - exists lv. destruct HI as [Hs Hn Hso Hb Hc Hp Hst]. rewrite app_nil_r in Hs. subst P.
    constructor; auto; try (now rewrite app_nil_r); try (intros h Hh; discriminate).
  - set (news := discover (nb u) out) in *.
    set (lv' := fun x => if mem x news then S (lv u) else lv x).
    destruct HI as [Hs Hn Hso Hb Hc Hp Hst].
    assert (Hold : forall x, In x out -> lv' x = lv x).
    { intros x Hx. unfold lv'. destruct (mem x news) eqn:Hm; [|reflexivity].
      apply mem_In in Hm. apply discover_sound in Hm. destruct Hm as (_&_&Hm). contradiction. }
    assert (Hnew : forall x, In x news -> lv' x = S (lv u)).
    { intros x Hx. unfold lv'. apply mem_In in Hx. now rewrite Hx. }
    assert (Hu : In u out). { rewrite Hs. apply in_or_app. right. left. reflexivity. }
    assert (Hbu : forall x, In x out -> lv x <= S (lv u)). { apply Hb. reflexivity. }
    apply (IH lv' (P ++ [u])). constructor.
    + rewrite Hs. now rewrite <- !app_assoc.
    + (* NoDup *)
      clear - Hn. pose proof (discover_nodup (nb u) out) as Hd. fold news in Hd.
      assert (Hdis : forall x, In x news -> ~ In x out).
      { intros x Hx. apply discover_sound in Hx. tauto. }
      revert Hn Hdis. generalize news Hd. clear. induction out as [|a o IHo]; cbn; intros nw Hd Hn Hdis; [exact Hd|].
      inversion Hn; subst. constructor.
      * intro Hx. apply in_app_or in Hx. destruct Hx as [?|Hx]; [contradiction|]. apply (Hdis a Hx). left; reflexivity.
      * apply IHo; auto. intros x Hx Ho. apply (Hdis x Hx). right; exact Ho.
    + (* sorted *)
      apply sorted_app. split; [|split].
      * eapply sorted_ext; [|exact Hso]. intros; symmetry; auto.
      * apply (sorted_const lv' news (S (lv u))). exact Hnew.
      * intros x y Hx Hy. rewrite (Hold x Hx), (Hnew y Hy). auto.
    + (* bound w.r.t. new head *)
      intros h Hh x Hx.
      assert (Hhge : lv u <= lv' h).
      { destruct q as [|q1 q'].
        - cbn in Hh. destruct news as [|n1 nw] eqn:En; [discriminate|]. cbn in Hh. injection Hh as <-.
          rewrite Hnew; [lia | left; reflexivity].
        - cbn in Hh. injection Hh as <-.
          assert (Hq1 : In q1 out). { rewrite Hs. apply in_or_app. right. right. left. reflexivity. }
          rewrite (Hold _ Hq1).
          rewrite Hs in Hso. apply sorted_app in Hso. destruct Hso as (_ & Hq & _).
          cbn in Hq. destruct Hq as [Hq _]. apply Hq. left; reflexivity. }
      apply in_app_or in Hx. destruct Hx as [Hx|Hx].
      * rewrite (Hold _ Hx). specialize (Hbu _ Hx). lia.
      * rewrite (Hnew _ Hx). lia.
    + (* closed *)
      intros v Hv w Hw Hwu. apply in_app_or in Hv. destruct Hv as [Hv|[<-|[]]].
      * destruct (Hc v Hv w Hw Hwu) as [Hin Hle]. split; [apply in_or_app; auto|].
        assert (In v out) by (rewrite Hs; apply in_or_app; auto).
        rewrite (Hold w Hin), (Hold v); auto.
      * destruct (discover_complete (nb u) out w Hw Hwu) as [Hin|Hin].
        -- split; [apply in_or_app; auto|]. rewrite (Hold w Hin), (Hold u Hu). apply Hbu; exact Hin.
        -- split; [apply in_or_app; auto|]. fold news in Hin. rewrite (Hnew w Hin), (Hold u Hu). lia.
    + (* paths *)
      intros x Hx. apply in_app_or in Hx. destruct Hx as [Hx|Hx].
      * rewrite (Hold _ Hx). auto.
      * rewrite (Hnew _ Hx). pose proof Hx as Hx'. apply discover_sound in Hx'. destruct Hx' as (Hxn & Hxu & _).
        eapply pS; [apply Hp; exact Hu | exact Hxn | exact Hxu].
    + destruct Hst as [Hs1 Hs2]. split; [apply in_or_app; auto|]. now rewrite (Hold s Hs1).
Qed.

(* CLRS 22.5: listed in non-decreasing distance order, each at its shortest distance *)
Theorem bft_level_order : forall out, inU s = true -> Bfs [s] [s] out ->
  exists lv, sorted_by lv out
    /\ (forall v, In v out -> path (lv v) v)
    /\ (forall m v, path m v -> In v out /\ lv v <= m).
Proof.
  intros out Hs H.
  assert (HI0 : Inv (fun _ => 0) [] [s] [s]).
  { apply Build_Inv.
    - reflexivity.
    - constructor; [intros [] | constructor].
    - cbn. split; [intros ? [] | exact I].
    - intros h Hh x Hx. lia.
    - intros u [].
    - intros x [<-|[]]. constructor.
    - split; [left; reflexivity | reflexivity]. }
  destruct (Bfs_inv _ _ _ H _ _ HI0) as [lv HI].
  exists lv. destruct HI as [_ _ Hso _ Hc Hp [Hs1 Hs2]]. split; [exact Hso | split; [exact Hp|]].
  induction 1 as [|n v w _ IHp Hw Hwu].
  - split; [exact Hs1 | lia].
  - destruct IHp as [Hv Hle]. destruct (Hc v Hv w Hw Hwu) as [Hin Hlw]. split; [exact Hin | lia].
Qed.
End Bfs.
Print Assumptions bft_level_order.
